import Bec2Verif.Lemmas.Der
import Bec2Verif.Model.PointCodec
import Bec2Verif.Gen.Consts
/-! point strings and the P-256 SubjectPublicKeyInfo header -/
namespace Bec2Verif.PointCodec
open Bec2Verif Der

def p256oid : List Nat := [1, 2, 840, 10045, 3, 1, 7]

theorem encOid_ecpk : encOid oidEcPublicKey = [0x06, 0x07, 0x2A, 0x86, 0x48, 0xCE, 0x3D, 0x02, 0x01] := by decide
theorem encOid_p256 : encOid p256oid = [0x06, 0x08, 0x2A, 0x86, 0x48, 0xCE, 0x3D, 0x03, 0x01, 0x07] := by decide

theorem inner_const : encodeSequence [encOid oidEcPublicKey, encOid p256oid] =
    [0x30, 0x13, 0x06, 0x07, 0x2A, 0x86, 0x48, 0xCE, 0x3D, 0x02, 0x01, 0x06, 0x08, 0x2A, 0x86, 0x48, 0xCE, 0x3D, 0x03, 0x01, 0x07] := by
  decide

/-- the library's SubjectPublicKeyInfo of an uncompressed P-256 point is the fixed header followed by the raw key -/
theorem header_spec (raw : Bytes) (h : raw.length = 64) : spki p256oid (0x04 :: raw) = Gen.RAW_DER_HEADER ++ raw := by
  unfold spki
  rw [inner_const]
  simp only [encodeSequence, encodeBitstring0, List.flatten_cons, List.flatten_nil, List.append_nil, List.length_append,
    List.length_cons, List.length_nil, h]
  simp [encodeLength, Gen.RAW_DER_HEADER]

theorem rmobj_ecpk (rest : Bytes) :
    removeObject ([0x06, 0x07, 0x2A, 0x86, 0x48, 0xCE, 0x3D, 0x02, 0x01] ++ rest) = .ok (oidEcPublicKey, rest) := by
  have h : readNumbers 8 [0x2A, 0x86, 0x48, 0xCE, 0x3D, 0x02, 0x01] [] = .ok [42, 840, 10045, 2, 1] := by rfl
  simp [removeObject, readLength, sliceBody, h, oidEcPublicKey, bind, Except.bind, pure, Except.pure]

theorem rmobj_p256 (rest : Bytes) :
    removeObject ([0x06, 0x08, 0x2A, 0x86, 0x48, 0xCE, 0x3D, 0x03, 0x01, 0x07] ++ rest) = .ok (p256oid, rest) := by
  have h : readNumbers 9 [0x2A, 0x86, 0x48, 0xCE, 0x3D, 0x03, 0x01, 0x07] [] = .ok [42, 840, 10045, 3, 1, 7] := by rfl
  simp [removeObject, readLength, sliceBody, h, p256oid, bind, Except.bind, pure, Except.pure]

theorem small_encodable (n : Nat) (h : n < 128) : Encodable n := by
  unfold Encodable beBytes
  unfold beAux
  have : n < 256 := by omega
  simp [this]

/-- the DER decoder applied to header ++ raw hands exactly `04 ++ raw` (and the P-256 curve) to the point decoder -/
theorem parse_header (raw : Bytes) (h : raw.length = 64) :
    parseSpki (Gen.RAW_DER_HEADER ++ raw) = .ok (p256oid, 0x04 :: raw) := by
  rw [← header_spec raw h]
  unfold spki parseSpki
  have e1 : Encodable [encodeSequence [encOid oidEcPublicKey, encOid p256oid], encodeBitstring0 (0x04 :: raw)].flatten.length := by
    apply small_encodable
    rw [inner_const]
    simp [encodeBitstring0, encodeLength, h]
  have := removeSequence_encode [encodeSequence [encOid oidEcPublicKey, encOid p256oid], encodeBitstring0 (0x04 :: raw)] [] e1
  simp only [List.append_nil] at this
  simp only [this, bind, Except.bind, List.isEmpty_nil, Bool.not_true, Bool.false_eq_true, if_false,
    List.flatten_cons, List.flatten_nil, List.append_nil]
  have e2 : Encodable [encOid oidEcPublicKey, encOid p256oid].flatten.length := by
    apply small_encodable
    rw [encOid_ecpk, encOid_p256]; decide
  have h2 := removeSequence_encode [encOid oidEcPublicKey, encOid p256oid] (encodeBitstring0 (0x04 :: raw)) e2
  simp only [h2, List.flatten_cons, List.flatten_nil, List.append_nil]
  rw [encOid_ecpk, rmobj_ecpk]
  simp only [bne_self_eq_false, Bool.false_eq_true, if_false]
  rw [encOid_p256]
  have h3 := rmobj_p256 []
  simp only [List.append_nil] at h3
  have hseq : isSequence [0x06, 0x08, 0x2A, 0x86, 0x48, 0xCE, 0x3D, 0x03, 0x01, 0x07] = false := by decide
  have hfind : findCurve p256oid = some Gen.NIST256p := by rfl
  simp only [hseq, Bool.false_eq_true, if_false, h3, List.isEmpty_nil, Bool.not_true, hfind]
  have e3 : Encodable ((0x04 :: raw).length + 1) := by
    apply small_encodable; simp [h]
  have h4 := removeBitstring_encode (0x04 :: raw) [] e3
  simp only [List.append_nil] at h4
  simp only [h4, List.isEmpty_nil, Bool.not_true, Bool.false_eq_true, if_false, List.length_cons, h]
  have : ¬ (64 + 1 = Gen.NIST256p.verifyingKeyLength) := by decide
  simp only [this, if_false]
  rfl

/-- `to_raw_bin_fmt`: cutting 27 bytes off the DER form gives the raw key back -/
theorem raw_of_der (raw : Bytes) : (Gen.RAW_DER_HEADER ++ raw).drop Gen.DER_HEADER_LEN = raw := by
  have : Gen.RAW_DER_HEADER.length = Gen.DER_HEADER_LEN := by decide
  rw [← this, List.drop_left]

/-! ### point strings -/

theorem orderlen_pos (p : Nat) : 0 < orderlen p := by
  unfold orderlen
  have := beBytes_ne_nil p
  cases h : beBytes p with
  | nil => exact absurd h this
  | cons _ _ => simp

/-- raw, uncompressed and hybrid strings decode to the point they encode (coordinates that fit the field length) -/
theorem fromBytes_toBytes (c : CurveParams) (enc : Enc) (henc : enc ≠ .compressed) (x y : Nat)
    (hx : x < 256 ^ orderlen c.p) (hy : y < 256 ^ orderlen c.p) (validate : Bool) :
    ∃ s, toBytes c enc x y = .ok s ∧ fromBytes c s validate = .ok (x, y) := by
  have hl := orderlen_pos c.p
  have hxs : numberToString x c.p = .ok (toBE (orderlen c.p) x) := by simp [numberToString, hx]
  have hys : numberToString y c.p = .ok (toBE (orderlen c.p) y) := by simp [numberToString, hy]
  have hlen : (toBE (orderlen c.p) x ++ toBE (orderlen c.p) y).length = 2 * orderlen c.p := by simp; omega
  have htake : (toBE (orderlen c.p) x ++ toBE (orderlen c.p) y).take (2 * orderlen c.p / 2) = toBE (orderlen c.p) x := by
    have : 2 * orderlen c.p / 2 = (toBE (orderlen c.p) x).length := by simp
    rw [this, List.take_left]
  have hdrop : (toBE (orderlen c.p) x ++ toBE (orderlen c.p) y).drop (2 * orderlen c.p / 2) = toBE (orderlen c.p) y := by
    have : 2 * orderlen c.p / 2 = (toBE (orderlen c.p) x).length := by simp
    rw [this, List.drop_left]
  cases enc with
  | compressed => exact absurd rfl henc
  | raw =>
    refine ⟨toBE (orderlen c.p) x ++ toBE (orderlen c.p) y, by simp [toBytes, hxs, hys, bind, Except.bind, pure, Except.pure], ?_⟩
    unfold fromBytes
    simp only [hlen, if_true, htake, hdrop, fromBE_toBE _ _ hx, fromBE_toBE _ _ hy]
  | uncompressed =>
    refine ⟨0x04 :: (toBE (orderlen c.p) x ++ toBE (orderlen c.p) y), by simp [toBytes, hxs, hys, bind, Except.bind, pure, Except.pure], ?_⟩
    unfold fromBytes
    have c1 : ¬ ((0x04 :: (toBE (orderlen c.p) x ++ toBE (orderlen c.p) y)).length = 2 * orderlen c.p) := by
      simp only [List.length_cons, hlen]; omega
    have c2 : (0x04 :: (toBE (orderlen c.p) x ++ toBE (orderlen c.p) y)).length = 2 * orderlen c.p + 1 := by
      simp only [List.length_cons, hlen]
    have c1' : ¬ (2 * orderlen c.p + 1 = 2 * orderlen c.p) := by omega
    simp only [c2, c1', if_false, if_true, htake, hdrop, fromBE_toBE _ _ hx, fromBE_toBE _ _ hy]
    simp
  | hybrid =>
    refine ⟨(if y % 2 = 1 then 0x07 else 0x06) :: (toBE (orderlen c.p) x ++ toBE (orderlen c.p) y),
      by simp [toBytes, hxs, hys, bind, Except.bind, pure, Except.pure], ?_⟩
    unfold fromBytes
    by_cases hodd : y % 2 = 1
    · have c1 : ¬ ((0x07 :: (toBE (orderlen c.p) x ++ toBE (orderlen c.p) y)).length = 2 * orderlen c.p) := by
        simp only [List.length_cons, hlen]; omega
      have c2 : (0x07 :: (toBE (orderlen c.p) x ++ toBE (orderlen c.p) y)).length = 2 * orderlen c.p + 1 := by
        simp only [List.length_cons, hlen]
      have c1' : ¬ (2 * orderlen c.p + 1 = 2 * orderlen c.p) := by omega
      simp only [hodd, if_true, c2, c1', if_false, htake, hdrop, fromBE_toBE _ _ hx, fromBE_toBE _ _ hy]
      simp [hodd]
    · have hev : y % 2 = 0 := by omega
      have c1 : ¬ ((0x06 :: (toBE (orderlen c.p) x ++ toBE (orderlen c.p) y)).length = 2 * orderlen c.p) := by
        simp only [List.length_cons, hlen]; omega
      have c2 : (0x06 :: (toBE (orderlen c.p) x ++ toBE (orderlen c.p) y)).length = 2 * orderlen c.p + 1 := by
        simp only [List.length_cons, hlen]
      have c1' : ¬ (2 * orderlen c.p + 1 = 2 * orderlen c.p) := by omega
      simp only [hodd, if_false, c2, c1', if_true, htake, hdrop, fromBE_toBE _ _ hx, fromBE_toBE _ _ hy]
      simp [hev]

end Bec2Verif.PointCodec
