import Mathlib.AlgebraicGeometry.EllipticCurve.Affine.Point
import Mathlib.Tactic.FieldSimp
import Mathlib.Tactic.Ring
import Mathlib.Tactic.LinearCombination
/-!
The Jacobian formulas of python-ecdsa's `PointJacobi` over an arbitrary field, and their correctness with respect
to Mathlib's group law on `WeierstrassCurve.Affine.Point` (`y² = x³ + a x + b`).
Pure algebra; the tie to the integer model (`Model/Ec.lean`) is in `Lemmas/EcCast.lean`.
-/
namespace Bec2Verif.EcF
open WeierstrassCurve

variable {F : Type} [Field F]

abbrev T3 (F : Type) := F × F × F

/-- `_double` (dbl-2007-bl); with `Z = 1` this is `_double_with_z_1` (mdbl-2007-bl) -/
def dbl (X Y Z a : F) : T3 F :=
  let XX := X * X; let YY := Y * Y; let YYYY := YY * YY; let ZZ := Z * Z
  let S := 2 * ((X + YY) ^ 2 - XX - YYYY)
  let M := 3 * XX + a * ZZ * ZZ
  let T := M * M - 2 * S
  (T, M * (S - T) - 8 * YYYY, (Y + Z) ^ 2 - YY - ZZ)

/-- `_add_with_z_1` (mmadd-2007-bl), generic branch -/
def addZ1 (X1 Y1 X2 Y2 : F) : T3 F :=
  let H := X2 - X1; let HH := H * H; let I := 4 * HH; let J := H * I
  let r := 2 * (Y2 - Y1); let V := X1 * I
  let X3 := r ^ 2 - J - 2 * V
  (X3, r * (V - X3) - 2 * Y1 * J, 2 * H)

/-- `_add_with_z_eq` (zadd-2007-m), generic branch -/
def addZeq (X1 Y1 Z1 X2 Y2 : F) : T3 F :=
  let A := (X2 - X1) ^ 2; let B := X1 * A; let C := X2 * A; let D := (Y2 - Y1) ^ 2
  let X3 := D - B - C
  (X3, (Y2 - Y1) * (B - X3) - Y1 * (C - B), Z1 * (X2 - X1))

/-- `_add_with_z2_1` (madd-2007-bl), generic branch; the second operand has `Z = 1` -/
def addZ2_1 (X1 Y1 Z1 X2 Y2 : F) : T3 F :=
  let Z1Z1 := Z1 * Z1; let U2 := X2 * Z1Z1; let S2 := Y2 * Z1 * Z1Z1
  let H := U2 - X1; let HH := H * H; let I := 4 * HH; let J := H * I
  let r := 2 * (S2 - Y1); let V := X1 * I
  let X3 := r * r - J - 2 * V
  (X3, r * (V - X3) - 2 * Y1 * J, (Z1 + H) ^ 2 - Z1Z1 - HH)

/-- `_add_with_z_ne` (add-2007-bl), generic branch -/
def addZne (X1 Y1 Z1 X2 Y2 Z2 : F) : T3 F :=
  let Z1Z1 := Z1 * Z1; let Z2Z2 := Z2 * Z2
  let U1 := X1 * Z2Z2; let U2 := X2 * Z1Z1
  let S1 := Y1 * Z2 * Z2Z2; let S2 := Y2 * Z1 * Z1Z1
  let H := U2 - U1; let I := 4 * H * H; let J := H * I
  let r := 2 * (S2 - S1); let V := U1 * I
  let X3 := r * r - J - 2 * V
  (X3, r * (V - X3) - 2 * S1 * J, ((Z1 + Z2) ^ 2 - Z1Z1 - Z2Z2) * H)

/-- `(X, Y, Z)` represents the affine point `(x, y)`: `x = X / Z²`, `y = Y / Z³` -/
def Aff (x y : F) (t : T3 F) : Prop := t.2.2 ≠ 0 ∧ t.1 = x * t.2.2 ^ 2 ∧ t.2.1 = y * t.2.2 ^ 3

/-- chord: the affine sum for `x₁ ≠ x₂` -/
def chordX (x1 y1 x2 y2 : F) : F := ((y1 - y2) / (x1 - x2)) ^ 2 - x1 - x2
def chordY (x1 y1 x2 y2 : F) : F := -(((y1 - y2) / (x1 - x2)) * (chordX x1 y1 x2 y2 - x1) + y1)

/-- tangent: the affine double for `y ≠ 0` -/
def tanX (a x y : F) : F := ((3 * x ^ 2 + a) / (2 * y)) ^ 2 - x - x
def tanY (a x y : F) : F := -(((3 * x ^ 2 + a) / (2 * y)) * (tanX a x y - x) + y)

variable (h2 : (2 : F) ≠ 0)
include h2

theorem dbl_aff (a x y X Y Z : F) (hy : y ≠ 0) (h : Aff x y (X, Y, Z)) :
    Aff (tanX a x y) (tanY a x y) (dbl X Y Z a) := by
  obtain ⟨hZ, hX, hY⟩ := h
  simp only at hZ hX hY
  subst hX hY
  have h2y : 2 * y ≠ 0 := mul_ne_zero h2 hy
  refine ⟨?_, ?_, ?_⟩
  · simp only [dbl]
    have : (y * Z ^ 3 + Z) ^ 2 - y * Z ^ 3 * (y * Z ^ 3) - Z * Z = 2 * y * Z ^ 4 := by ring
    rw [this]
    exact mul_ne_zero h2y (pow_ne_zero _ hZ)
  · simp only [dbl, tanX]
    field_simp
    ring
  · simp only [dbl, tanY, tanX]
    field_simp
    ring

theorem addZne_aff (x1 y1 x2 y2 X1 Y1 Z1 X2 Y2 Z2 : F) (hx : x1 ≠ x2)
    (h1 : Aff x1 y1 (X1, Y1, Z1)) (h2' : Aff x2 y2 (X2, Y2, Z2)) :
    Aff (chordX x1 y1 x2 y2) (chordY x1 y1 x2 y2) (addZne X1 Y1 Z1 X2 Y2 Z2) := by
  obtain ⟨hZ1, hX1, hY1⟩ := h1
  obtain ⟨hZ2, hX2, hY2⟩ := h2'
  simp only at hZ1 hX1 hY1 hZ2 hX2 hY2
  subst hX1 hY1 hX2 hY2
  have hd : x1 - x2 ≠ 0 := sub_ne_zero.mpr hx
  refine ⟨?_, ?_, ?_⟩
  · simp only [addZne]
    have : ((Z1 + Z2) ^ 2 - Z1 * Z1 - Z2 * Z2) * (x2 * Z2 ^ 2 * (Z1 * Z1) - x1 * Z1 ^ 2 * (Z2 * Z2))
        = -(2 * (Z1 * Z2) ^ 3 * (x1 - x2)) := by ring
    rw [this]
    exact neg_ne_zero.mpr (mul_ne_zero (mul_ne_zero h2 (pow_ne_zero _ (mul_ne_zero hZ1 hZ2))) hd)
  · simp only [addZne, chordX]
    field_simp
    ring
  · simp only [addZne, chordY, chordX]
    field_simp
    ring

theorem addZ2_1_aff (x1 y1 x2 y2 X1 Y1 Z1 X2 Y2 : F) (hx : x1 ≠ x2)
    (h1 : Aff x1 y1 (X1, Y1, Z1)) (h2' : Aff x2 y2 (X2, Y2, 1)) :
    Aff (chordX x1 y1 x2 y2) (chordY x1 y1 x2 y2) (addZ2_1 X1 Y1 Z1 X2 Y2) := by
  obtain ⟨hZ1, hX1, hY1⟩ := h1
  obtain ⟨_, hX2, hY2⟩ := h2'
  simp only [one_pow, mul_one] at hZ1 hX1 hY1 hX2 hY2
  have hd : x1 - x2 ≠ 0 := sub_ne_zero.mpr hx
  rw [hX1, hY1, hX2, hY2]
  refine ⟨?_, ?_, ?_⟩
  · simp only [addZ2_1]
    have : (Z1 + (x2 * (Z1 * Z1) - x1 * Z1 ^ 2)) ^ 2 - Z1 * Z1 - (x2 * (Z1 * Z1) - x1 * Z1 ^ 2) * (x2 * (Z1 * Z1) - x1 * Z1 ^ 2)
        = -(2 * Z1 ^ 3 * (x1 - x2)) := by ring
    rw [this]
    exact neg_ne_zero.mpr (mul_ne_zero (mul_ne_zero h2 (pow_ne_zero _ hZ1)) hd)
  · simp only [addZ2_1, chordX]
    field_simp
    ring
  · simp only [addZ2_1, chordY, chordX]
    field_simp
    ring

omit h2 in
theorem addZeq_aff (x1 y1 x2 y2 X1 Y1 Z1 X2 Y2 : F) (hx : x1 ≠ x2)
    (h1 : Aff x1 y1 (X1, Y1, Z1)) (h2' : Aff x2 y2 (X2, Y2, Z1)) :
    Aff (chordX x1 y1 x2 y2) (chordY x1 y1 x2 y2) (addZeq X1 Y1 Z1 X2 Y2) := by
  obtain ⟨hZ1, hX1, hY1⟩ := h1
  obtain ⟨_, hX2, hY2⟩ := h2'
  simp only at hZ1 hX1 hY1 hX2 hY2
  subst hX1 hY1 hX2 hY2
  have hd : x1 - x2 ≠ 0 := sub_ne_zero.mpr hx
  refine ⟨?_, ?_, ?_⟩
  · simp only [addZeq]
    have : Z1 * (x2 * Z1 ^ 2 - x1 * Z1 ^ 2) = -(Z1 ^ 3 * (x1 - x2)) := by ring
    rw [this]
    exact neg_ne_zero.mpr (mul_ne_zero (pow_ne_zero _ hZ1) hd)
  · simp only [addZeq, chordX]
    field_simp
    ring
  · simp only [addZeq, chordY, chordX]
    field_simp
    ring

theorem addZ1_aff (x1 y1 x2 y2 : F) (hx : x1 ≠ x2) :
    Aff (chordX x1 y1 x2 y2) (chordY x1 y1 x2 y2) (addZ1 x1 y1 x2 y2) := by
  have hd : x1 - x2 ≠ 0 := sub_ne_zero.mpr hx
  refine ⟨?_, ?_, ?_⟩
  · simp only [addZ1]
    have : 2 * (x2 - x1) = -(2 * (x1 - x2)) := by ring
    rw [this]
    exact neg_ne_zero.mpr (mul_ne_zero h2 hd)
  · simp only [addZ1, chordX]
    field_simp
    ring
  · simp only [addZ1, chordY, chordX]
    field_simp
    ring

end Bec2Verif.EcF

/-! ### the group law of Mathlib -/
namespace Bec2Verif.EcF
open WeierstrassCurve

variable {F : Type} [Field F] [DecidableEq F]

/-- `y² = x³ + a x + b` as a Mathlib Weierstrass curve in affine coordinates -/
def W (a b : F) : WeierstrassCurve.Affine F := { a₁ := 0, a₂ := 0, a₃ := 0, a₄ := a, a₆ := b }

variable {a b : F}

omit [DecidableEq F] in
theorem W_equation (x y : F) : (W a b).Equation x y ↔ y ^ 2 = x ^ 3 + a * x + b := by
  rw [Affine.equation_iff]
  simp [W]

omit [DecidableEq F] in
theorem W_negY (x y : F) : (W a b).negY x y = -y := by simp [W, Affine.negY]

/-- a Jacobian triple represents a point of the group: infinity is `Y = 0 ∨ Z = 0` (the library's encoding) -/
def Rep (P : (W a b).Point) (t : T3 F) : Prop :=
  match P with
  | .zero => t.2.1 = 0 ∨ t.2.2 = 0
  | .some x y _ => Aff x y t

omit [DecidableEq F] in
theorem rep_zero (t : T3 F) : Rep (0 : (W a b).Point) t ↔ (t.2.1 = 0 ∨ t.2.2 = 0) := Iff.rfl

theorem rep_add_of_X_ne {x1 y1 x2 y2 : F} (h1 : (W a b).Nonsingular x1 y1) (h2 : (W a b).Nonsingular x2 y2)
    (hx : x1 ≠ x2) (t : T3 F) (ht : Aff (chordX x1 y1 x2 y2) (chordY x1 y1 x2 y2) t) :
    Rep (Affine.Point.some x1 y1 h1 + Affine.Point.some x2 y2 h2) t := by
  rw [Affine.Point.add_of_X_ne hx]
  show Aff _ _ t
  have hs : (W a b).slope x1 x2 y1 y2 = (y1 - y2) / (x1 - x2) := Affine.slope_of_X_ne hx
  have hX : (W a b).addX x1 x2 ((W a b).slope x1 x2 y1 y2) = chordX x1 y1 x2 y2 := by
    rw [hs]; simp [W, Affine.addX, chordX]
  have hY : (W a b).addY x1 x2 y1 ((W a b).slope x1 x2 y1 y2) = chordY x1 y1 x2 y2 := by
    rw [hs]; simp [W, Affine.addY, Affine.negAddY, Affine.negY, Affine.addX, chordY, chordX]
  rw [hX, hY]
  exact ht

theorem rep_dbl {x y : F} (h : (W a b).Nonsingular x y) (hy : y ≠ 0) (h2 : (2 : F) ≠ 0) (t : T3 F)
    (ht : Aff (tanX a x y) (tanY a x y) t) :
    Rep (Affine.Point.some x y h + Affine.Point.some x y h) t := by
  have hne : y ≠ (W a b).negY x y := by
    rw [W_negY]
    intro h'
    have : 2 * y = 0 := by linear_combination h'
    exact (mul_ne_zero h2 hy) this
  rw [Affine.Point.add_self_of_Y_ne hne]
  show Aff _ _ t
  have hs : (W a b).slope x x y y = (3 * x ^ 2 + a) / (2 * y) := by
    rw [Affine.slope_of_Y_ne rfl hne]
    simp [W, Affine.negY]
    ring
  have hX : (W a b).addX x x ((W a b).slope x x y y) = tanX a x y := by
    rw [hs]; simp [W, Affine.addX, tanX]
  have hY : (W a b).addY x x y ((W a b).slope x x y y) = tanY a x y := by
    rw [hs]; simp [W, Affine.addY, Affine.negAddY, Affine.negY, Affine.addX, tanY, tanX]
  rw [hX, hY]
  exact ht

theorem add_inverse {x1 y1 x2 y2 : F} (h1 : (W a b).Nonsingular x1 y1) (h2 : (W a b).Nonsingular x2 y2)
    (hx : x1 = x2) (hy : y1 = -y2) :
    Affine.Point.some x1 y1 h1 + Affine.Point.some x2 y2 h2 = 0 :=
  Affine.Point.add_of_Y_eq hx (by rw [W_negY]; exact hy)

/-- two points of the curve with the same `x` have equal or opposite `y` -/
theorem y_eq_or_neg {x y1 y2 : F} (h1 : (W a b).Equation x y1) (h2 : (W a b).Equation x y2) :
    y1 = y2 ∨ y1 = -y2 := by
  rw [W_equation] at h1 h2
  have : (y1 - y2) * (y1 + y2) = 0 := by linear_combination h1 - h2
  rcases mul_eq_zero.mp this with h | h
  · exact Or.inl (sub_eq_zero.mp h)
  · exact Or.inr (eq_neg_of_add_eq_zero_left h)

end Bec2Verif.EcF
