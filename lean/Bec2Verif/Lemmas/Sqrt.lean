import Bec2Verif.Lemmas.Jacobi
import Bec2Verif.Lemmas.Bytes
import Mathlib.NumberTheory.LegendreSymbol.Basic
/-!
Compressed points decode to the point they encode, on curves over a prime field with `p ≡ 3 (mod 4)` (NIST P-192/256/384/
521, secp256k1, the brainpool curves): the Jacobi test never runs out of fuel, the modular exponentiation is `^`, the
candidate root is a root (Euler's criterion), and the parity byte selects the right one of `±y`.
-/
set_option linter.unusedVariables false
namespace Bec2Verif.PointCodec
open NumberTheorySymbols Bec2Verif

/-! ### the Jacobi loop terminates within its fuel -/

theorem jacobi_complete (fuel a n : ℕ) (hodd : n % 2 = 1) (hn : 3 ≤ n) (hf : (a % n) * n < 2 ^ fuel) :
    (jacobi (fuel + 1) a n).isSome = true := by
  induction fuel generalizing a n with
  | zero =>
    have h0 : a % n = 0 := by
      by_contra hne
      have : 1 ≤ a % n := by omega
      have : n ≤ (a % n) * n := Nat.le_mul_of_pos_left n this
      simp at hf; omega
    unfold jacobi
    have h1 : ¬ n < 3 := by omega
    have h2 : ¬ (n % 2 != 1) = true := by simp [hodd]
    simp [h1, h2, h0]
  | succ f ih =>
    unfold jacobi
    have h1 : ¬ n < 3 := by omega
    have h2 : ¬ (n % 2 != 1) = true := by simp [hodd]
    simp only [h1, h2, if_false]
    generalize ha' : a % n = a' at hf ⊢
    have ha'n : a' < n := by rw [← ha']; exact Nat.mod_lt _ (by omega)
    by_cases h0 : a' = 0
    · simp [h0]
    · by_cases h11 : a' = 1
      · simp [h0, h11]
      · simp only [h0, h11, if_false]
        have hsp := stripTwos_spec (a'.log2 + 2) a' 0 (by omega) (by
          have := Nat.lt_log2_self (n := a')
          calc a' < 2 ^ (a'.log2 + 1) := this
            _ ≤ 2 ^ (a'.log2 + 2) := Nat.pow_le_pow_right (by norm_num) (by omega))
        generalize stripTwos (a'.log2 + 2) a' 0 = st at hsp ⊢
        obtain ⟨a1, e⟩ := st
        simp only at hsp ⊢
        obtain ⟨ha1odd, _, _, ha1pos, ha1le⟩ := hsp
        by_cases ha11 : a1 = 1
        · simp [ha11]
        · simp only [ha11, if_false]
          have ha13 : 3 ≤ a1 := by omega
          -- the product at least halves
          have hhalf : 2 * ((n % a1) * a1) ≤ a' * n := by
            have hmod : n % a1 < a1 := Nat.mod_lt _ ha1pos
            by_cases hc : 2 * a1 ≤ n
            · calc 2 * ((n % a1) * a1) ≤ 2 * (a1 * a1) := by
                    apply Nat.mul_le_mul_left; exact Nat.mul_le_mul_right _ hmod.le
                _ = a1 * (2 * a1) := by ring
                _ ≤ a1 * n := Nat.mul_le_mul_left _ hc
                _ ≤ a' * n := Nat.mul_le_mul_right _ ha1le
            · have hlt : a1 ≤ n := by omega
              have hm : n % a1 = n - a1 := by
                rw [Nat.mod_eq_sub_mod hlt, Nat.mod_eq_of_lt (by omega)]
              rw [hm]
              calc 2 * ((n - a1) * a1) = (2 * (n - a1)) * a1 := by ring
                _ ≤ n * a1 := Nat.mul_le_mul_right _ (by omega)
                _ = a1 * n := by ring
                _ ≤ a' * n := Nat.mul_le_mul_right _ ha1le
          have hrec := ih (n % a1) a1 ha1odd ha13 (by
            rw [Nat.mod_mod]
            rw [pow_succ] at hf
            omega)
          cases hj : jacobi (f + 1) (n % a1) a1 with
          | none => simp [hj] at hrec
          | some j => simp

/-! ### `pow(b, e, m)` -/

theorem powModAux_spec (fuel b e m acc : ℕ) (hm : 0 < m) (hacc : acc < m) (he : e < 2 ^ fuel) :
    powModAux fuel b e m acc = acc * b ^ e % m := by
  induction fuel generalizing b e acc with
  | zero =>
    have : e = 0 := by simpa using he
    subst this
    simp [powModAux, Nat.mod_eq_of_lt hacc]
  | succ f ih =>
    unfold powModAux
    by_cases h0 : e = 0
    · subst h0; simp [Nat.mod_eq_of_lt hacc]
    · simp only [h0, if_false]
      have hdecomp : e = 2 * (e / 2) + e % 2 := (Nat.div_add_mod e 2).symm
      by_cases hodd : e % 2 = 1
      · simp only [hodd, if_true]
        rw [ih (b * b % m) (e / 2) (acc * b % m) (Nat.mod_lt _ hm) (by rw [pow_succ] at he; omega)]
        conv_rhs => rw [hdecomp, hodd, pow_succ, pow_mul, sq]
        rw [Nat.mul_mod, Nat.pow_mod, Nat.mod_mod, Nat.mod_mod, ← Nat.pow_mod, ← Nat.mul_mod]
        congr 1
        ring
      · have hev : e % 2 = 0 := by omega
        simp only [hodd, if_false]
        rw [ih (b * b % m) (e / 2) acc hacc (by rw [pow_succ] at he; omega)]
        conv_rhs => rw [hdecomp, hev, add_zero, pow_mul, sq]
        rw [Nat.mul_mod, Nat.pow_mod, Nat.mod_mod, ← Nat.pow_mod, ← Nat.mul_mod]

theorem powMod_spec (b e m : ℕ) (hm : 1 < m) : powMod b e m = b ^ e % m := by
  unfold powMod
  rw [powModAux_spec _ _ _ _ _ (by omega) (Nat.mod_lt _ (by omega)) (by
    have := Nat.lt_log2_self (n := e)
    calc e < 2 ^ (e.log2 + 1) := this
      _ ≤ 2 ^ (e.log2 + 2) := Nat.pow_le_pow_right (by norm_num) (by omega))]
  rw [Nat.mod_eq_of_lt hm, one_mul, Nat.pow_mod, Nat.mod_mod, ← Nat.pow_mod]

/-! ### square roots for `p ≡ 3 (mod 4)` -/

variable {p : ℕ} [hp : Fact p.Prime]

theorem natCast_eq_or_neg {β y : ℕ} (hβ : β < p) (hy0 : 0 < y) (hy : y < p)
    (h : (β : ZMod p) = (y : ZMod p) ∨ (β : ZMod p) = -(y : ZMod p)) : β = y ∨ β = p - y := by
  rcases h with h | h
  · left
    have := (ZMod.natCast_eq_natCast_iff' β y p).mp h
    rwa [Nat.mod_eq_of_lt hβ, Nat.mod_eq_of_lt hy] at this
  · right
    have h' : (β : ZMod p) = ((p - y : ℕ) : ZMod p) := by
      rw [h, Nat.cast_sub hy.le]; simp
    have := (ZMod.natCast_eq_natCast_iff' β (p - y) p).mp h'
    rwa [Nat.mod_eq_of_lt hβ, Nat.mod_eq_of_lt (by omega)] at this

/-- `square_root_mod_prime(y² mod p, p)` is `y` or `p − y` -/
theorem sqrtModPrime_sq (y : ℕ) (hy0 : 0 < y) (hy : y < p) (h34 : p % 4 = 3) :
    ∃ β, sqrtModPrime (y * y % p) p = some β ∧ β < p ∧ (β = y ∨ β = p - y) := by
  have hpp := hp.out
  have hp3 : 3 ≤ p := by have := hpp.two_le; omega
  have hyne : (y : ZMod p) ≠ 0 := by
    intro h
    rw [ZMod.natCast_eq_zero_iff] at h
    exact absurd (Nat.le_of_dvd hy0 h) (by omega)
  have ha0 : y * y % p ≠ 0 := by
    intro h
    have hd : p ∣ y * y := Nat.dvd_of_mod_eq_zero h
    rcases (Nat.Prime.dvd_mul hpp).mp hd with h1 | h1 <;> exact absurd (Nat.le_of_dvd hy0 h1) (by omega)
  have halt : y * y % p < p := Nat.mod_lt _ (by omega)
  -- the Jacobi test
  have hfuel : (p.log2 + 2) * 2 = (2 * p.log2 + 3) + 1 := by omega
  have hcomp := jacobi_complete (2 * p.log2 + 3) (y * y % p) p (by omega) hp3 (by
    rw [Nat.mod_mod]
    have h1 : p < 2 ^ (p.log2 + 1) := Nat.lt_log2_self
    calc y * y % p * p < p * p := Nat.mul_lt_mul_of_pos_right halt (by omega)
      _ < 2 ^ (p.log2 + 1) * 2 ^ (p.log2 + 1) := Nat.mul_lt_mul'' h1 h1
      _ = 2 ^ (2 * p.log2 + 2) := by rw [← pow_add]; congr 1; omega
      _ ≤ 2 ^ (2 * p.log2 + 3) := Nat.pow_le_pow_right (by norm_num) (by omega))
  rw [← hfuel] at hcomp
  cases hj : jacobi ((p.log2 + 2) * 2) (y * y % p) p with
  | none => simp [hj] at hcomp
  | some j =>
    have hjs := jacobi_sound _ _ _ j hj
    have hJ1 : j = 1 := by
      rw [hjs]
      have : J(((y * y % p : ℕ) : ℤ) | p) = J(((y : ℤ) ^ 2) | p) := by
        apply jacobiSym.mod_left'
        push_cast
        rw [Int.emod_emod_of_dvd _ (dvd_refl _), sq]
      rw [this]
      apply jacobiSym.sq_one'
      rw [Int.gcd_natCast_natCast]
      exact (Nat.Coprime.symm ((Nat.Prime.coprime_iff_not_dvd hpp).mpr
        (fun h => absurd (Nat.le_of_dvd hy0 h) (by omega))))
    subst hJ1
    refine ⟨powMod (y * y % p) ((p + 1) / 4) p, ?_, ?_, ?_⟩
    · unfold sqrtModPrime
      have h1 : ¬ p ≤ 1 := by omega
      have h2 : ¬ p = 2 := by omega
      simp only [h1, if_false, ha0, h2, hj, h34, if_true]
    · rw [powMod_spec _ _ _ (by omega)]; exact Nat.mod_lt _ (by omega)
    · apply natCast_eq_or_neg (by rw [powMod_spec _ _ _ (by omega)]; exact Nat.mod_lt _ (by omega)) hy0 hy
      rw [powMod_spec _ _ _ (by omega)]
      have hcast : (((y * y % p) ^ ((p + 1) / 4) % p : ℕ) : ZMod p) = (y : ZMod p) ^ (p / 2 + 1) := by
        rw [ZMod.natCast_mod]
        push_cast
        rw [ZMod.natCast_mod]
        push_cast
        rw [← sq, ← pow_mul]
        congr 1
        omega
      rw [hcast, pow_succ]
      rcases ZMod.pow_div_two_eq_neg_one_or_one p hyne with h | h
      · left; rw [h, one_mul]
      · right; rw [h]; ring

/-! ### compressed points -/

theorem numberToString_lt (x order : ℕ) (h : x < 256 ^ orderlen order) :
    numberToString x order = .ok (toBE (orderlen order) x) := by simp [numberToString, h]

/-- **compressed form round trip**: a point `(x, y)` with `0 < y < p` on the curve (in the decoder's own terms) comes
back from its compressed string -/
theorem fromCompressed_toBytes (c : CurveParams) (hcp : c.p = p) (h34 : p % 4 = 3) (x y : ℕ)
    (hx : x < 256 ^ orderlen c.p) (hy0 : 0 < y) (hy : y < p)
    (hon : ((((x : ℤ) ^ 3 % (c.p : ℤ) + c.a * x + c.b).emod (c.p : ℤ)).toNat) = y * y % p) :
    ∃ s, toBytes c .compressed x y = .ok s ∧ fromCompressed c s = .ok (x, y) ∧ s.length = orderlen c.p + 1 := by
  have hpp := hp.out
  have hpodd : p % 2 = 1 := by omega
  refine ⟨(if y % 2 = 1 then 0x03 else 0x02) :: toBE (orderlen c.p) x, ?_, ?_, by simp⟩
  · simp [toBytes, numberToString_lt x c.p hx, bind, Except.bind, pure, Except.pure]
  · obtain ⟨β, hβ, hβlt, hβy⟩ := sqrtModPrime_sq y hy0 hy h34
    unfold fromCompressed
    have htag : ((if y % 2 = 1 then (0x03 : UInt8) else 0x02) != 0x02 && (if y % 2 = 1 then (0x03 : UInt8) else 0x02) != 0x03) = false := by
      split <;> decide
    simp only [htag, Bool.false_eq_true, if_false, fromBE_toBE _ _ hx]
    rw [hon]
    simp only [hcp, hβ]
    congr 2
    rcases hβy with rfl | rfl
    · by_cases hpar : β % 2 = 1
      · simp [hpar]
      · have : β % 2 = 0 := by omega
        simp [hpar, this]
    · by_cases hpar : y % 2 = 1
      · have h2 : (p - y) % 2 = 0 := by omega
        simp [hpar, h2]; omega
      · have h2 : (p - y) % 2 = 1 := by omega
        simp [hpar, h2]; omega

/-- … and through `from_bytes`, which recognises the compressed form by its length -/
theorem fromBytes_compressed (c : CurveParams) (hcp : c.p = p) (h34 : p % 4 = 3) (hl : 2 ≤ orderlen c.p) (x y : ℕ)
    (hx : x < 256 ^ orderlen c.p) (hy0 : 0 < y) (hy : y < p)
    (hon : ((((x : ℤ) ^ 3 % (c.p : ℤ) + c.a * x + c.b).emod (c.p : ℤ)).toNat) = y * y % p) (validate : Bool) :
    ∃ s, toBytes c .compressed x y = .ok s ∧ fromBytes c s validate = .ok (x, y) := by
  obtain ⟨s, hs, hd, hlen⟩ := fromCompressed_toBytes c hcp h34 x y hx hy0 hy hon
  refine ⟨s, hs, ?_⟩
  unfold fromBytes
  have h1 : ¬ s.length = 2 * orderlen c.p := by omega
  have h2 : ¬ s.length = 2 * orderlen c.p + 1 := by omega
  have h3 : s.length = 2 * orderlen c.p / 2 + 1 := by omega
  simp only
  rw [if_neg h1, if_neg h2, if_pos h3, hd]

end Bec2Verif.PointCodec
