import Bec2Verif.Model.Bf3
/-! helper lemmas on big-endian fields, `take`, and `Except` binds -/
namespace Bec2Verif

theorem Except.bind_eq_ok {ε α β : Type} (x : Except ε α) (f : α → Except ε β) (b : β) :
    (x >>= f) = .ok b ↔ ∃ a, x = .ok a ∧ f a = .ok b := by
  cases x with
  | error e => simp [bind, Except.bind]
  | ok a => simp [bind, Except.bind]

@[simp] theorem toBE_length (k n : Nat) : (toBE k n).length = k := by
  induction k generalizing n with
  | zero => rfl
  | succ k ih => simp [toBE, ih]

theorem fromBE_foldl (init : Nat) (b : Bytes) :
    b.foldl (fun acc x => acc * 256 + x.toNat) init
      = init * 256 ^ b.length + b.foldl (fun acc x => acc * 256 + x.toNat) 0 := by
  induction b generalizing init with
  | nil => simp
  | cons x xs ih =>
    simp only [List.foldl_cons, List.length_cons]
    rw [ih (init * 256 + x.toNat), ih (0 * 256 + x.toNat)]
    rw [Nat.pow_succ, Nat.add_mul]
    simp [Nat.mul_assoc, Nat.mul_comm, Nat.add_assoc]

theorem fromBE_append (a b : Bytes) : fromBE (a ++ b) = fromBE a * 256 ^ b.length + fromBE b := by
  unfold fromBE
  rw [List.foldl_append, fromBE_foldl]

theorem fromBE_toBE (k n : Nat) (h : n < 256 ^ k) : fromBE (toBE k n) = n := by
  induction k generalizing n with
  | zero => simp [toBE, fromBE] at *; omega
  | succ k ih =>
    have hd : n / 256 < 256 ^ k := by
      rw [Nat.pow_succ] at h
      exact Nat.div_lt_of_lt_mul (by rw [Nat.mul_comm]; exact h)
    simp only [toBE]
    rw [fromBE_append, ih _ hd]
    simp [fromBE, UInt8.toNat_ofNat']
    omega

theorem toBytesBE_ok {k n : Nat} {b : Bytes} (h : toBytesBE k n = .ok b) :
    b = toBE k n ∧ n < 256 ^ k := by
  unfold toBytesBE at h
  split at h
  · injection h with h; exact ⟨h.symm, by assumption⟩
  · cases h

theorem toBytesBE_len {k n : Nat} {b : Bytes} (h : toBytesBE k n = .ok b) : b.length = k := by
  rw [(toBytesBE_ok h).1]; simp

namespace Bf3

theorem take_append (a r : Bytes) : take a.length (a ++ r) = .ok (a, r) := by
  simp [take]

theorem take_append' {n : Nat} (a r : Bytes) (h : a.length = n) : take n (a ++ r) = .ok (a, r) := by
  subst h; exact take_append a r

theorem take_all {n : Nat} (a : Bytes) (h : a.length = n) : take n a = .ok (a, []) := by
  have := take_append' a [] h
  simpa using this

theorem readInt_toBE (k n : Nat) (r : Bytes) (h : n < 256 ^ k) :
    readInt k (toBE k n ++ r) = .ok (n, r) := by
  unfold readInt
  rw [take_append' _ _ (toBE_length k n)]
  simp [bind, Except.bind, pure, Except.pure, fromBE_toBE k n h]

end Bf3
end Bec2Verif

namespace Bec2Verif

theorem fromBE_lt (a : Bytes) : fromBE a < 256 ^ a.length := by
  induction a using List.rec with
  | nil => simp [fromBE]
  | cons x xs ih =>
    have h := fromBE_append [x] xs
    simp only [List.singleton_append] at h
    rw [h]
    have hx : fromBE [x] = x.toNat := by simp [fromBE]
    have hxl := UInt8.toNat_lt x
    rw [hx, List.length_cons, Nat.pow_succ]
    have hp : 0 < 256 ^ xs.length := Nat.pow_pos (by omega)
    calc x.toNat * 256 ^ xs.length + fromBE xs
        < x.toNat * 256 ^ xs.length + 256 ^ xs.length := by omega
      _ = (x.toNat + 1) * 256 ^ xs.length := by rw [Nat.add_mul, Nat.one_mul]
      _ ≤ 256 * 256 ^ xs.length := Nat.mul_le_mul_right _ (by omega)
      _ = 256 ^ xs.length * 256 := Nat.mul_comm _ _

theorem toBE_append_byte (k n : Nat) : toBE (k + 1) n = toBE k (n / 256) ++ [UInt8.ofNat (n % 256)] := rfl

theorem toBE_fromBE (a : Bytes) : toBE a.length (fromBE a) = a := by
  -- induct from the right: a = init ++ [last]
  induction h : a.length generalizing a with
  | zero =>
    have : a = [] := List.length_eq_zero_iff.mp h
    subst this; rfl
  | succ n ih =>
    have hne : a ≠ [] := by intro h0; subst h0; simp at h
    obtain ⟨init, last, rfl⟩ : ∃ init last, a = init ++ [last] :=
      ⟨a.dropLast, a.getLast hne, (List.dropLast_concat_getLast hne).symm⟩
    have hlen : init.length = n := by simp at h; exact h
    rw [toBE_append_byte, fromBE_append]
    have h1 : fromBE [last] = last.toNat := by simp [fromBE]
    have hl := UInt8.toNat_lt last
    simp only [List.length_singleton, Nat.pow_one, h1]
    have hd : (fromBE init * 256 + last.toNat) / 256 = fromBE init := by omega
    have hm : (fromBE init * 256 + last.toNat) % 256 = last.toNat := by omega
    rw [hd, hm]
    rw [ih init hlen]
    simp

namespace Bf3

theorem take_ok {n : Nat} {bs a r : Bytes} (h : take n bs = .ok (a, r)) : bs = a ++ r ∧ a.length = n := by
  unfold take at h
  split at h
  · rename_i hle
    injection h with h
    simp only [Prod.mk.injEq] at h
    obtain ⟨rfl, rfl⟩ := h
    exact ⟨(List.take_append_drop n bs).symm, by simp; omega⟩
  · cases h

theorem readInt_ok {n : Nat} {bs r : Bytes} {v : Nat} (h : readInt n bs = .ok (v, r)) :
    bs = toBE n v ++ r ∧ v < 256 ^ n := by
  simp only [readInt, Except.bind_eq_ok] at h
  obtain ⟨⟨a, r'⟩, ht, hp⟩ := h
  simp only [pure, Except.pure, Except.ok.injEq, Prod.mk.injEq] at hp
  obtain ⟨rfl, rfl⟩ := hp
  obtain ⟨rfl, hlen⟩ := take_ok ht
  subst hlen
  exact ⟨by rw [toBE_fromBE], fromBE_lt a⟩

end Bf3
end Bec2Verif
