import Bec2Verif.Model.Bf3
/-! helper lemmas on big-endian fields, `take`, and `Except` binds -/
namespace Bec2Verif

theorem Except.bind_eq_ok {ε α β : Type} (x : Except ε α) (f : α → Except ε β) (b : β) :
    (x >>= f) = .ok b ↔ ∃ a, x = .ok a ∧ f a = .ok b := by
  cases x with
  | error e => simp [bind, Except.bind]
  | ok a => simp [bind, Except.bind]

@[simp] theorem toBE_length (k n : Nat) : (toBE k n).length = k := by
  induction k generalizing n with
  | zero => rfl
  | succ k ih => simp [toBE, ih]

theorem fromBE_foldl (init : Nat) (b : Bytes) :
    b.foldl (fun acc x => acc * 256 + x.toNat) init
      = init * 256 ^ b.length + b.foldl (fun acc x => acc * 256 + x.toNat) 0 := by
  induction b generalizing init with
  | nil => simp
  | cons x xs ih =>
    simp only [List.foldl_cons, List.length_cons]
    rw [ih (init * 256 + x.toNat), ih (0 * 256 + x.toNat)]
    rw [Nat.pow_succ, Nat.add_mul]
    simp [Nat.mul_assoc, Nat.mul_comm, Nat.add_assoc]

theorem fromBE_append (a b : Bytes) : fromBE (a ++ b) = fromBE a * 256 ^ b.length + fromBE b := by
  unfold fromBE
  rw [List.foldl_append, fromBE_foldl]

theorem fromBE_toBE (k n : Nat) (h : n < 256 ^ k) : fromBE (toBE k n) = n := by
  induction k generalizing n with
  | zero => simp [toBE, fromBE] at *; omega
  | succ k ih =>
    have hd : n / 256 < 256 ^ k := by
      rw [Nat.pow_succ] at h
      exact Nat.div_lt_of_lt_mul (by rw [Nat.mul_comm]; exact h)
    simp only [toBE]
    rw [fromBE_append, ih _ hd]
    simp [fromBE, UInt8.toNat_ofNat']
    omega

theorem toBytesBE_ok {k n : Nat} {b : Bytes} (h : toBytesBE k n = .ok b) :
    b = toBE k n ∧ n < 256 ^ k := by
  unfold toBytesBE at h
  split at h
  · injection h with h; exact ⟨h.symm, by assumption⟩
  · cases h

theorem toBytesBE_len {k n : Nat} {b : Bytes} (h : toBytesBE k n = .ok b) : b.length = k := by
  rw [(toBytesBE_ok h).1]; simp

namespace Bf3

theorem take_append (a r : Bytes) : take a.length (a ++ r) = .ok (a, r) := by
  simp [take]

theorem take_append' {n : Nat} (a r : Bytes) (h : a.length = n) : take n (a ++ r) = .ok (a, r) := by
  subst h; exact take_append a r

theorem take_all {n : Nat} (a : Bytes) (h : a.length = n) : take n a = .ok (a, []) := by
  have := take_append' a [] h
  simpa using this

theorem readInt_toBE (k n : Nat) (r : Bytes) (h : n < 256 ^ k) :
    readInt k (toBE k n ++ r) = .ok (n, r) := by
  unfold readInt
  rw [take_append' _ _ (toBE_length k n)]
  simp [bind, Except.bind, pure, Except.pure, fromBE_toBE k n h]

end Bf3
end Bec2Verif
