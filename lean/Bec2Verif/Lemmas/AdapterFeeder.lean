import Bec2Verif.Lemmas.Feeder
/-!
The adapter model (`Model/Crypto.lean`: "CBC over the 16-byte pieces of the data") is what the general models of the mode
object and of the block feeder (`Model/Modes.lean`) compute when they are used the way the adapter uses them:
a fresh `AESModeOfOperationCBC(key, iv)`, an `Encrypter` / `Decrypter` with `padding="none"`, one `feed(data)` and the
finalising `feed()`.
-/
namespace Bec2Verif.Modes
open Bec2Verif

variable (B : BlockCipher)

/-- the first `n` 16-byte pieces -/
def blk : Nat → Bytes → List Bytes
  | 0, _ => []
  | n+1, x => x.take 16 :: blk n (x.drop 16)

theorem blk_flatten (n : Nat) (x : Bytes) : (blk n x).flatten = x.take (16 * n) := by
  induction n generalizing x with
  | zero => simp [blk]
  | succ n ih =>
    simp only [blk, List.flatten_cons, ih]
    have : 16 * (n + 1) = 16 + 16 * n := by omega
    rw [this, List.take_add]

theorem blk_len (n : Nat) (x : Bytes) (h : 16 * n ≤ x.length) : ∀ b ∈ blk n x, b.length = 16 := by
  induction n generalizing x with
  | zero => simp [blk]
  | succ n ih =>
    intro b hb
    simp only [blk, List.mem_cons] at hb
    rcases hb with rfl | hb
    · rw [List.length_take]; omega
    · exact ih (x.drop 16) (by rw [List.length_drop]; omega) b hb

theorem chunks_eq_blk (n : Nat) (x : Bytes) (h : x.length = 16 * n) : chunks 16 x = blk n x := by
  have hf := blk_flatten n x
  rw [List.take_of_length_le (Nat.le_of_eq h)] at hf
  conv => lhs; rw [← hf]
  exact chunks_of_blocks _ (blk_len n x (Nat.le_of_eq h.symm))

theorem stepBlocks_cbc_enc (n : Nat) (m : St B) (x : Bytes) (hk : m.kind = .cbc) (hx : 16 * n ≤ x.length) :
    ∃ m', stepBlocks B false n m x = .ok (m', (cbcEncBlocks B m.key m.reg (blk n x)).flatten) := by
  induction n generalizing m x with
  | zero => exact ⟨m, by simp [stepBlocks, blk, cbcEncBlocks]⟩
  | succ n ih =>
    have h16 : ((x.take 16).length != 16) = false := by
      have : (x.take 16).length = 16 := by rw [List.length_take]; omega
      rw [this]; rfl
    obtain ⟨m', h'⟩ := ih { m with reg := B.enc m.key (xorBytes (x.take 16) m.reg) } (x.drop 16) hk
      (by rw [List.length_drop]; omega)
    refine ⟨m', ?_⟩
    simp only [stepBlocks]
    have hs : step B m false (x.take 16) =
        .ok ({ m with reg := B.enc m.key (xorBytes (x.take 16) m.reg) }, B.enc m.key (xorBytes (x.take 16) m.reg)) := by
      unfold step; simp only [hk, h16, Bool.false_eq_true, if_false]
    rw [hs]
    simp only [h']
    simp [blk, cbcEncBlocks]

theorem stepBlocks_cbc_dec (n : Nat) (m : St B) (x : Bytes) (hk : m.kind = .cbc) (hx : 16 * n ≤ x.length) :
    ∃ m', stepBlocks B true n m x = .ok (m', (cbcDecBlocks B m.key m.reg (blk n x)).flatten) := by
  induction n generalizing m x with
  | zero => exact ⟨m, by simp [stepBlocks, blk, cbcDecBlocks]⟩
  | succ n ih =>
    have h16 : ((x.take 16).length != 16) = false := by
      have : (x.take 16).length = 16 := by rw [List.length_take]; omega
      rw [this]; rfl
    obtain ⟨m', h'⟩ := ih { m with reg := x.take 16 } (x.drop 16) hk (by rw [List.length_drop]; omega)
    refine ⟨m', ?_⟩
    simp only [stepBlocks]
    have hs : step B m true (x.take 16) = .ok ({ m with reg := x.take 16 }, xorBytes (B.dec m.key (x.take 16)) m.reg) := by
      unfold step; simp only [hk, h16, Bool.false_eq_true, if_false, if_true]
    rw [hs]
    simp only [h']
    simp [blk, cbcDecBlocks]

/-- a feeder with `padding="none"` over CBC: whole blocks only, and then the CBC of the 16-byte pieces -/
theorem feedAll_none_cbc (f : Feeder B) (hk : f.mode.kind = .cbc) (hpad : f.padding = .none) (hb : f.buffer = some [])
    (data : Bytes) :
    feedAll B f data =
      if data.length = 0 ∨ data.length % 16 ≠ 0 then .error .bareException
      else .ok ((if f.dec then cbcDecBlocks B f.mode.key f.mode.reg (chunks 16 data)
                 else cbcEncBlocks B f.mode.key f.mode.reg (chunks 16 data)).flatten) := by
  have hkb : f.mode.kind = .ecb ∨ f.mode.kind = .cbc := Or.inr hk
  have hseg : ∀ seg, f.mode.kind = .cfb seg → 0 < seg := by intro seg h; rw [hk] at h; cases h
  have hc : consumed f.mode.kind data.length = 16 * (data.length / 16 - 1) := by unfold consumed; simp [hk]
  have hcle : 16 * (data.length / 16 - 1) ≤ data.length := by omega
  -- every block of the first round goes through
  have hfirst : ∃ m1 o1, stepBlocks B f.dec (data.length / 16 - 1) f.mode data = .ok (m1, o1) ∧
      o1 = (if f.dec then cbcDecBlocks B f.mode.key f.mode.reg (blk (data.length / 16 - 1) data)
            else cbcEncBlocks B f.mode.key f.mode.reg (blk (data.length / 16 - 1) data)).flatten := by
    cases hd : f.dec with
    | false => obtain ⟨m1, h1⟩ := stepBlocks_cbc_enc B _ f.mode data hk hcle; exact ⟨m1, _, h1, by simp⟩
    | true => obtain ⟨m1, h1⟩ := stepBlocks_cbc_dec B _ f.mode data hk hcle; exact ⟨m1, _, h1, by simp⟩
  obtain ⟨m1, o1, hs1, ho1⟩ := hfirst
  have hk1 : m1.kind = .cbc := by rw [stepBlocks_kind B _ _ _ _ _ _ hs1]; exact hk
  unfold feedAll
  rw [feed_spec B f [] data hb hseg]
  simp only [List.nil_append, hc]
  rw [process_block B f.dec f.mode _ hkb, List.length_take, Nat.min_eq_left hcle]
  have hn : 16 * (data.length / 16 - 1) / 16 = data.length / 16 - 1 := by omega
  rw [hn, stepBlocks_take B f.dec _ _ f.mode data (Nat.le_refl _) hcle, hs1]
  simp only
  unfold feed
  simp only [hpad, bind, Except.bind, pure, Except.pure]
  have hfin : ∀ d : Bytes, final B m1 f.dec .none d = if d.length != 16 then .error .bareException else step B m1 f.dec d := by
    intro d
    unfold final
    simp only [hk1]
    cases f.dec <;> rfl
  rw [hfin, List.length_drop]
  by_cases hbad : data.length = 0 ∨ data.length % 16 ≠ 0
  · rw [if_pos hbad]
    have : (data.length - 16 * (data.length / 16 - 1) != 16) = true := by
      simp only [bne_iff_ne, ne_eq]; omega
    rw [this]; rfl
  · rw [if_neg hbad]
    have hgood : data.length - 16 * (data.length / 16 - 1) = 16 := by omega
    have : (data.length - 16 * (data.length / 16 - 1) != 16) = false := by rw [hgood]; rfl
    rw [this]
    simp only [Bool.false_eq_true, if_false]
    -- the last block, through the full-length statement
    obtain ⟨N, hN⟩ : ∃ N, data.length = 16 * (N + 1) := ⟨data.length / 16 - 1, by omega⟩
    have hN1 : data.length / 16 - 1 = N := by omega
    rw [hN1] at hs1 ho1 ⊢
    have hwhole : ∃ m', stepBlocks B f.dec (N + 1) f.mode data = .ok (m',
        (if f.dec then cbcDecBlocks B f.mode.key f.mode.reg (blk (N + 1) data)
         else cbcEncBlocks B f.mode.key f.mode.reg (blk (N + 1) data)).flatten) := by
      cases hd : f.dec with
      | false => obtain ⟨m', h'⟩ := stepBlocks_cbc_enc B (N + 1) f.mode data hk (by omega); exact ⟨m', by simpa using h'⟩
      | true => obtain ⟨m', h'⟩ := stepBlocks_cbc_dec B (N + 1) f.mode data hk (by omega); exact ⟨m', by simpa using h'⟩
    obtain ⟨m', hw⟩ := hwhole
    have hall := stepBlocks_add B f.dec N 1 f.mode data
    rw [hw, hs1] at hall
    simp only [stepBlocks] at hall
    have h16 : (data.drop (16 * N)).take 16 = data.drop (16 * N) :=
      List.take_of_length_le (by rw [List.length_drop]; omega)
    rw [h16] at hall
    rw [chunks_eq_blk (N + 1) data hN]
    cases hl : step B m1 f.dec (data.drop (16 * N)) with
    | error e => rw [hl] at hall; cases hall
    | ok r =>
      obtain ⟨m2, o2⟩ := r
      rw [hl] at hall
      simp only [List.append_nil] at hall
      injection hall with hall
      injection hall with _ hout
      simp only
      rw [hout]

/-- **the adapter model is the mode-object and feeder models used the adapter's way** (`encrypt`) -/
theorem adapter_encrypt_is_feeder (key : Bytes) (iv : Option Bytes) (data : Bytes) :
    Adapter.encrypt B key iv data =
      if data.length = 0 then .error .valueError else
      match new B .cbc key iv 0 with
      | .error e => .error e
      | .ok m => feedAll B { mode := m, dec := false, padding := .none, buffer := some [] } (zeroPad data) := by
  unfold Adapter.encrypt
  by_cases h0 : data.length = 0
  · simp [h0]
  · rw [if_neg h0, if_neg h0]
    unfold Adapter.mkMode new
    simp only [bind, Except.bind, pure, Except.pure]
    have hz : ¬ ((zeroPad data).length = 0 ∨ (zeroPad data).length % 16 ≠ 0) := by
      intro hh
      rcases hh with hh | hh
      · simp [zeroPad] at hh; exact h0 (by simp [hh.1])
      · exact hh (zeroPad_len_mod data)
    cases iv with
    | none =>
      simp only
      cases B.sched key with
      | error e => rfl
      | ok k =>
        simp only
        rw [feedAll_none_cbc B _ rfl rfl rfl, if_neg hz]
        unfold Adapter.feedAll
        rw [if_neg hz]
        rfl
    | some v =>
      simp only
      by_cases hv : (v.length != 16) = true
      · simp only [hv, if_true]; rfl
      · simp only [hv, Bool.false_eq_true, if_false]
        cases B.sched key with
        | error e => rfl
        | ok k =>
          simp only
          rw [feedAll_none_cbc B _ rfl rfl rfl, if_neg hz]
          unfold Adapter.feedAll
          rw [if_neg hz]
          rfl

/-- the same for `decrypt` (the adapter checks the length itself, before the mode object exists) -/
theorem adapter_decrypt_is_feeder (key : Bytes) (iv : Option Bytes) (data : Bytes) :
    Adapter.decrypt B key iv data =
      if data.length = 0 ∨ data.length % 16 ≠ 0 then .error .valueError else
      match new B .cbc key iv 0 with
      | .error e => .error e
      | .ok m => feedAll B { mode := m, dec := true, padding := .none, buffer := some [] } data := by
  unfold Adapter.decrypt
  by_cases hz : data.length = 0 ∨ data.length % 16 ≠ 0
  · rw [if_pos hz, if_pos hz]
  · rw [if_neg hz, if_neg hz]
    unfold Adapter.mkMode new
    simp only [bind, Except.bind, pure, Except.pure]
    cases iv with
    | none =>
      simp only
      cases B.sched key with
      | error e => rfl
      | ok k =>
        simp only
        rw [feedAll_none_cbc B _ rfl rfl rfl, if_neg hz]
        unfold Adapter.feedAll
        rw [if_neg hz]
        rfl
    | some v =>
      simp only
      by_cases hv : (v.length != 16) = true
      · simp only [hv, if_true]; rfl
      · simp only [hv, Bool.false_eq_true, if_false]
        cases B.sched key with
        | error e => rfl
        | ok k =>
          simp only
          rw [feedAll_none_cbc B _ rfl rfl rfl, if_neg hz]
          unfold Adapter.feedAll
          rw [if_neg hz]
          rfl

end Bec2Verif.Modes
