import Bec2Verif.Lemmas.P256Curve
import Bec2Verif.Lemmas.EcAffineFacts
import Bec2Verif.Lemmas.EcdsaSound
import Bec2Verif.Lemmas.Bec2
import Bec2Verif.Model.P256
/-!
The registered ECC plug-in on NIST P-256 (`Model/P256.lean`) satisfies `EccLaws`: generated public keys are 64 bytes,
load again unchanged, and Diffie-Hellman is symmetric — with every hypothesis about the curve discharged for the
constants found in the current source (prime field, `CurveOK`, generator of prime order `n`).
-/
set_option linter.style.nameCheck false
set_option linter.unusedVariables false
namespace Bec2Verif.P256C
open Bec2Verif Bec2Verif.Ec Bec2Verif.EcC Bec2Verif.EcF Bec2Verif.Bec2 WeierstrassCurve

set_option maxRecDepth 100000

abbrev cA : ℤ := -3
abbrev cB : ℤ := 41058363725152142129326129780047268409114441015993725554835256314039467401291
abbrev gX : ℤ := 48439561293906451759052585252797914202762949526041747995844080717082404635286
abbrev gY : ℤ := 36134250956749795798585127919587881956611106672985015071877198253568414405109
abbrev N : ℕ := 115792089210356248762697446949407573529996955224135760342422259061068512044369

theorem curve_p : P256.curve.p = (P : ℤ) := p_eq
theorem curve_a : P256.curve.a = cA := a_eq
theorem curve_b : P256.curve.b = cB := b_eq
theorem g_eq : P256.G = .jac gX gY 1 := by decide +kernel
theorem n_eq : P256.rec.n = (N : ℤ) := by decide +kernel

theorem cOK : CurveOK P cA cB := curveOK

theorem g_on : containsPoint P256.curve gX gY = true := by decide +kernel

theorem g_equation : (W ((cA : ℤ) : ZMod P) ((cB : ℤ) : ZMod P)).Equation ((gX : ℤ) : ZMod P) ((gY : ℤ) : ZMod P) :=
  equation_of_containsPoint P256.curve curve_p curve_a curve_b gX gY g_on

/-- the generator as an element of Mathlib's group of the curve -/
def Gp : (W ((cA : ℤ) : ZMod P) ((cB : ℤ) : ZMod P)).Point :=
  .some ((gX : ℤ) : ZMod P) ((gY : ℤ) : ZMod P) (nonsingular_of_equation cOK g_equation)

theorem g_trep : TRep P cA cB Gp (gX, gY, 1) := trep_affine cOK gX gY ⟨by decide +kernel, by decide +kernel⟩ g_equation

theorem g_ne : Gp ≠ 0 := by intro h; cases h

/-- `n • G = 0`: the model's own scalar multiplication, evaluated by the kernel, through `mul_correct` -/
theorem g_order : (N : ℤ) • Gp = 0 := by
  have h : mulNaf P256.curve 0 (.jac gX gY 1) (N : ℤ) = some .inf := by decide +kernel
  have := mulNaf_rep cOK P256.curve curve_p curve_a 0 (pt := .jac gX gY 1) g_trep (fun h => absurd rfl h) (N : ℤ) h
  exact this

theorem n_prime : N.Prime := Lucas.prime_115792089210356248762697446949407573529996955224135760342422259061068512044369

theorem g_ord_exact (k : ℤ) : k • Gp = 0 ↔ (N : ℤ) ∣ k := EcdsaC.order_exact N n_prime Gp g_order g_ne k

theorem g_nz : ∀ j : ℕ, (2 ^ j : ℕ) • Gp ≠ 0 :=
  EcdsaC.pow_two_smul_ne_zero N n_prime (by decide) Gp g_ord_exact

theorem hpp : (0 : ℤ) < P256.curve.p := by rw [curve_p]; decide +kernel

theorem g_xc : XCPt P256.curve.p (.jac gX gY 1) := by
  show 0 ≤ gX ∧ gX < P256.curve.p
  rw [curve_p]; exact ⟨by decide +kernel, by decide +kernel⟩

theorem g_yr : YR P256.curve.p (gX, gY, 1) := by
  show 0 ≤ gY ∧ gY < P256.curve.p
  rw [curve_p]; exact ⟨by decide +kernel, by decide +kernel⟩

/-! ### 32-byte big-endian integers -/

theorem be32_len (x : ℤ) : (P256.be32 x).length = 32 := by simp [P256.be32]

theorem be32_val (x : ℤ) (h0 : 0 ≤ x) (h1 : x < (P : ℤ)) : ((fromBE (P256.be32 x) : ℕ) : ℤ) = x := by
  unfold P256.be32
  rw [fromBE_toBE 32 x.toNat (by
    have : x.toNat < P := by omega
    have hP : P < 256 ^ 32 := by decide
    omega)]
  omega

/-- decoding `x ‖ y` of two field elements -/
theorem raw_decode (x y : ℤ) (hx : 0 ≤ x ∧ x < (P : ℤ)) (hy : 0 ≤ y ∧ y < (P : ℤ)) :
    (P256.be32 x ++ P256.be32 y).length = 64 ∧
    ((fromBE ((P256.be32 x ++ P256.be32 y).take 32) : ℕ) : ℤ) = x ∧
    ((fromBE ((P256.be32 x ++ P256.be32 y).drop 32) : ℕ) : ℤ) = y := by
  refine ⟨by simp [be32_len], ?_, ?_⟩
  · rw [List.take_left' (be32_len x)]; exact be32_val x hx.1 hx.2
  · rw [List.drop_left' (be32_len x)]; exact be32_val y hy.1 hy.2

/-- a validated affine pair is accepted by `loadRaw` unchanged -/
theorem loadRaw_ok (x y : ℤ) (hx : 0 ≤ x ∧ x < (P : ℤ)) (hy : 0 ≤ y ∧ y < (P : ℤ))
    (he : (W ((cA : ℤ) : ZMod P) ((cB : ℤ) : ZMod P)).Equation (x : ZMod P) (y : ZMod P)) :
    P256.loadRaw (P256.be32 x ++ P256.be32 y) = .ok (P256.be32 x ++ P256.be32 y) := by
  obtain ⟨hl, hdx, hdy⟩ := raw_decode x y hx hy
  unfold P256.loadRaw
  simp only [hl, bne_self_eq_false, Bool.false_eq_true, if_false, hdx, hdy, curve_p]
  have hc := containsPoint_of_equation P256.curve curve_p curve_a curve_b x y he
  have h1 : decide (x < (P : ℤ)) = true := by simpa using hx.2
  have h2 : decide (y < (P : ℤ)) = true := by simpa using hy.2
  rw [h1, h2, hc]
  rfl

/-- what `pubOf d` returns: the reduced affine coordinates of `d • G` -/
theorem pubOf_spec (d : ℕ) (pd : Bytes) (h : P256.pubOf d = .ok pd) :
    ∃ x y : ℤ, pd = P256.be32 x ++ P256.be32 y ∧ (0 ≤ x ∧ x < (P : ℤ)) ∧ (0 ≤ y ∧ y < (P : ℤ)) ∧
      ∃ (x' y' : ZMod P) (hns : (W ((cA : ℤ) : ZMod P) ((cB : ℤ) : ZMod P)).Nonsingular x' y'),
        (d : ℤ) • Gp = .some x' y' hns ∧ (x : ZMod P) = x' ∧ (y : ZMod P) = y' := by
  unfold P256.pubOf at h
  rw [g_eq, n_eq] at h
  split at h
  · rename_i R hR
    have hn0 : (0 : ℤ) < (N : ℤ) := by decide
    have hrep := mulGen_rep cOK P256.curve curve_p curve_a (N : ℤ) hn0 (pt := .jac gX gY 1) g_trep g_order (d : ℤ) hR
    have hxc := mulGen_xc P256.curve hpp (N : ℤ) (.jac gX gY 1) g_xc (d : ℤ) R hR
    have hyr := mulGen_yr cOK P256.curve curve_p curve_a (N : ℤ) hn0 g_trep g_yr g_nz (d : ℤ) hR
    split at h
    · rename_i xy hxy
      injection h with h
      obtain ⟨x, y⟩ := xy
      cases R with
      | inf => simp [Ec.toAffine] at hxy
      | jac X Y Z =>
        by_cases hninf : (Y == 0 || Z == 0) = true
        · simp [Ec.toAffine, hninf] at hxy
        · simp only [Ec.toAffine, hninf, Bool.false_eq_true, if_false] at hxy
          have hne : (d : ℤ) • Gp ≠ 0 := fun h0 => hninf ((trep_isInf cOK hrep).mpr h0)
          cases haff : affineXY P256.curve X Y Z with
          | none => simp [haff] at hxy
          | some uv =>
            simp only [haff, Option.map_some, Option.some.injEq] at hxy
            subst hxy
            cases hq : (d : ℤ) • Gp with
            | zero => exact absurd hq hne
            | some x' y' hns =>
              rw [hq] at hrep
              have hsp := affineXY_spec P256.curve curve_p hrep haff
              have hxr := affineXY_xc P256.curve hpp X Y Z hxc x y haff
              have hyr' := affineXY_yr P256.curve hpp X Y Z hyr x y haff
              rw [curve_p] at hxr hyr'
              exact ⟨x, y, h.symm, hxr, hyr', x', y', hns, rfl, hsp.1, hsp.2⟩
    · cases h
  · cases h

theorem pub_len (d : ℕ) (pd : Bytes) (h : P256.pubOf d = .ok pd) : pd.length = 64 := by
  obtain ⟨x, y, hpd, _⟩ := pubOf_spec d pd h
  rw [hpd, List.length_append, be32_len, be32_len]

theorem pub_loads (d : ℕ) (pd : Bytes) (h : P256.pubOf d = .ok pd) : P256.loadRaw pd = .ok pd := by
  obtain ⟨x, y, hpd, hx, hy, x', y', hns, _, hcx, hcy⟩ := pubOf_spec d pd h
  rw [hpd]
  apply loadRaw_ok x y hx hy
  rw [hcx, hcy]; exact hns.1

/-- the ECDH result for a received point that represents `Q` (of order dividing `n`): an error exactly when `d • Q` is
the point at infinity, else the canonical 32-byte x-coordinate of `d • Q` -/
theorem dh_spec (x y : ℤ) (hx : 0 ≤ x ∧ x < (P : ℤ)) (hy : 0 ≤ y ∧ y < (P : ℤ))
    (he : (W ((cA : ℤ) : ZMod P) ((cB : ℤ) : ZMod P)).Equation (x : ZMod P) (y : ZMod P))
    (Q : (W ((cA : ℤ) : ZMod P) ((cB : ℤ) : ZMod P)).Point)
    (hQ : Q = Affine.Point.some (x : ZMod P) (y : ZMod P) (nonsingular_of_equation cOK he))
    (hord : (N : ℤ) • Q = 0) (d : ℕ) :
    ((d : ℤ) • Q = 0 → P256.dh d (P256.be32 x ++ P256.be32 y) = .error .invalidSharedSecret) ∧
    (∀ x' y' hns, (d : ℤ) • Q = .some x' y' hns →
      P256.dh d (P256.be32 x ++ P256.be32 y) = .ok (P256.be32 (x'.val : ℤ))) := by
  obtain ⟨hl, hdx, hdy⟩ := raw_decode x y hx hy
  have hq : TRep P cA cB Q (x, y, 1) := by rw [hQ]; exact trep_affine cOK x y hy he
  obtain ⟨R, hR⟩ := mulNaf_some P256.curve curve_p (N : ℤ) (pt := .jac x y 1) hq (d : ℤ)
  have hrep := mulNaf_rep cOK P256.curve curve_p curve_a (N : ℤ) (pt := .jac x y 1) hq (fun _ => hord) (d : ℤ) hR
  have hxc := mulNaf_xc P256.curve hpp (N : ℤ) (.jac x y 1) (by show 0 ≤ x ∧ x < P256.curve.p; rw [curve_p]; exact hx) (d : ℤ) R hR
  have hdh : P256.dh d (P256.be32 x ++ P256.be32 y) =
      match Ec.toAffine P256.curve R with
      | some (some xy) => .ok (P256.be32 xy.1)
      | some none => .error .invalidSharedSecret
      | none => .error .valueError := by
    unfold P256.dh
    rw [loadRaw_ok x y hx hy he]
    simp only [bind, Except.bind, hdx, hdy, n_eq, hR]
    rfl
  rw [hdh]
  constructor
  · intro h0
    rw [h0] at hrep
    cases R with
    | inf => simp [Ec.toAffine]
    | jac X Y Z =>
      have hinf : (Y == 0 || Z == 0) = true := (trep_isInf cOK hrep).mpr rfl
      simp [Ec.toAffine, hinf]
  · intro x' y' hns hdq
    rw [hdq] at hrep
    cases R with
    | inf => exact absurd hrep (Affine.Point.some_ne_zero _)
    | jac X Y Z =>
      have hninf : ¬ (Y == 0 || Z == 0) = true := fun h => by
        have := (trep_isInf cOK hrep).mp h
        cases this
      obtain ⟨uv, huv⟩ := affineXY_some P256.curve curve_p hrep
      have hsp := affineXY_spec P256.curve curve_p hrep huv
      have hxr := affineXY_xc P256.curve hpp X Y Z hxc uv.1 uv.2 huv
      rw [curve_p] at hxr
      have hval : (x'.val : ℤ) = uv.1 := by
        rw [← hsp.1, ZMod.val_intCast, Int.emod_eq_of_lt hxr.1 hxr.2]
      simp only [Ec.toAffine, hninf, Bool.false_eq_true, if_false, huv, Option.map_some, hval]

/-- **the registered ECC plug-in satisfies `EccLaws`** -/
theorem p256_eccLaws : EccLaws P256.ecc where
  pubLen := pub_len
  loadPub := pub_loads
  dhSymm := by
    intro d e pd pe hd he
    obtain ⟨xd, yd, hpd', hxd, hyd, xd', yd', hnsd, hqd, hcxd, hcyd⟩ := pubOf_spec d pd hd
    obtain ⟨xe, ye, hpe', hxe, hye, xe', ye', hnse, hqe, hcxe, hcye⟩ := pubOf_spec e pe he
    show P256.dh d pe = P256.dh e pd
    rw [hpd', hpe']
    have heqe : (W ((cA : ℤ) : ZMod P) ((cB : ℤ) : ZMod P)).Equation (xe : ZMod P) (ye : ZMod P) := by
      rw [hcxe, hcye]; exact hnse.1
    have heqd : (W ((cA : ℤ) : ZMod P) ((cB : ℤ) : ZMod P)).Equation (xd : ZMod P) (yd : ZMod P) := by
      rw [hcxd, hcyd]; exact hnsd.1
    have hpe : Affine.Point.some (xe : ZMod P) (ye : ZMod P) (nonsingular_of_equation cOK heqe) = (e : ℤ) • Gp := by
      rw [hqe]; congr 1 <;> assumption
    have hpd : Affine.Point.some (xd : ZMod P) (yd : ZMod P) (nonsingular_of_equation cOK heqd) = (d : ℤ) • Gp := by
      rw [hqd]; congr 1 <;> assumption
    have se := dh_spec xe ye hxe hye heqe ((e : ℤ) • Gp) hpe.symm (by rw [smul_comm, g_order, zsmul_zero]) d
    have sd := dh_spec xd yd hxd hyd heqd ((d : ℤ) • Gp) hpd.symm (by rw [smul_comm, g_order, zsmul_zero]) e
    have hcomm : (d : ℤ) • (e : ℤ) • Gp = (e : ℤ) • (d : ℤ) • Gp := smul_comm _ _ _
    cases hz : (d : ℤ) • (e : ℤ) • Gp with
    | zero =>
      rw [se.1 hz, sd.1 (by rw [← hcomm]; exact hz)]
    | some x' y' hns =>
      rw [se.2 x' y' hns hz, sd.2 x' y' hns (by rw [← hcomm]; exact hz)]

end Bec2Verif.P256C
