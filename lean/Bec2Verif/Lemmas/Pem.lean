import Bec2Verif.Model.Pem
/-!
`unpem (topem der name) = der`: the base64 decoder inverts the encoder, the 64-character lines survive the line filter and
`strip`, the `-----BEGIN …-----` / `-----END …-----` lines do not.
-/
namespace Bec2Verif.Pem
open Bec2Verif

theorem dec6_enc6 (i : Nat) (h : i < 64) : dec6 (enc6 i) = some i := by
  have : ∀ j : Fin 64, dec6 (enc6 j.val) = some j.val := by decide
  exact this ⟨i, h⟩

theorem enc6_ne_pad (i : Nat) (h : i < 64) : enc6 i ≠ 61 := by
  have : ∀ j : Fin 64, enc6 j.val ≠ 61 := by decide
  exact this ⟨i, h⟩

theorem enc6_ne_dash (i : Nat) (h : i < 64) : enc6 i ≠ 45 := by
  have : ∀ j : Fin 64, enc6 j.val ≠ 45 := by decide
  exact this ⟨i, h⟩

theorem enc6_not_ws (i : Nat) (h : i < 64) : isWs (enc6 i) = false := by
  have : ∀ j : Fin 64, isWs (enc6 j.val) = false := by decide
  exact this ⟨i, h⟩

theorem enc6_ne_nl (i : Nat) (h : i < 64) : enc6 i ≠ 10 := by
  have : ∀ j : Fin 64, enc6 j.val ≠ 10 := by decide
  exact this ⟨i, h⟩

/-- a character of an encoding: an alphabet character or the pad -/
def B64Char (c : UInt8) : Prop := (∃ i, i < 64 ∧ c = enc6 i) ∨ c = 61

theorem b64char_ne_nl {c : UInt8} (h : B64Char c) : c ≠ 10 := by
  rcases h with ⟨i, hi, rfl⟩ | rfl
  · exact enc6_ne_nl i hi
  · decide

theorem b64char_ne_dash {c : UInt8} (h : B64Char c) : c ≠ 45 := by
  rcases h with ⟨i, hi, rfl⟩ | rfl
  · exact enc6_ne_dash i hi
  · decide

theorem b64char_not_ws {c : UInt8} (h : B64Char c) : isWs c = false := by
  rcases h with ⟨i, hi, rfl⟩ | rfl
  · exact enc6_not_ws i hi
  · decide

theorem toNat_lt (a : UInt8) : a.toNat < 256 := UInt8.toNat_lt a

theorem b64encode_chars : ∀ (n : Nat) (d : Bytes), d.length ≤ n → ∀ c ∈ b64encode d, B64Char c := by
  intro n
  induction n using Nat.strongRecOn with
  | _ n ih =>
    intro d hn c hc
    match d, hn, hc with
    | [], _, hc => simp [b64encode] at hc
    | [a], _, hc =>
      have := toNat_lt a
      simp only [b64encode, List.mem_cons, List.mem_nil_iff, or_false] at hc
      rcases hc with rfl | rfl | rfl | rfl
      · exact Or.inl ⟨_, by omega, rfl⟩
      · exact Or.inl ⟨_, by omega, rfl⟩
      · exact Or.inr rfl
      · exact Or.inr rfl
    | [a, b], _, hc =>
      have := toNat_lt a; have := toNat_lt b
      simp only [b64encode, List.mem_cons, List.mem_nil_iff, or_false] at hc
      rcases hc with rfl | rfl | rfl | rfl
      · exact Or.inl ⟨_, by omega, rfl⟩
      · exact Or.inl ⟨_, by omega, rfl⟩
      · exact Or.inl ⟨_, by omega, rfl⟩
      · exact Or.inr rfl
    | a :: b :: c' :: rest, hn, hc =>
      have := toNat_lt a; have := toNat_lt b; have := toNat_lt c'
      simp only [b64encode, List.mem_cons] at hc
      rcases hc with rfl | rfl | rfl | rfl | hc
      · exact Or.inl ⟨_, by omega, rfl⟩
      · exact Or.inl ⟨_, by omega, rfl⟩
      · exact Or.inl ⟨_, by omega, rfl⟩
      · exact Or.inl ⟨_, by omega, rfl⟩
      · simp only [List.length_cons] at hn
        exact ih (n - 3) (by omega) rest (by omega) c hc

/-- a decoder state between quads -/
def fresh (o : Bytes) : DState := { quad := 0, left := 0, pads := 0, out := o, done := false }

theorem dstep_q0 (l p : Nat) (o : Bytes) (i : Nat) (hi : i < 64) :
    dstep { quad := 0, left := l, pads := p, out := o, done := false } (enc6 i) =
      { quad := 1, left := i, pads := 0, out := o, done := false } := by
  simp [dstep, enc6_ne_pad i hi, dec6_enc6 i hi]

theorem dstep_q1 (l p : Nat) (o : Bytes) (i : Nat) (hi : i < 64) :
    dstep { quad := 1, left := l, pads := p, out := o, done := false } (enc6 i) =
      { quad := 2, left := i % 16, pads := 0, out := o ++ [UInt8.ofNat ((l * 4 + i / 16) % 256)], done := false } := by
  simp [dstep, enc6_ne_pad i hi, dec6_enc6 i hi]

theorem dstep_q2 (l p : Nat) (o : Bytes) (i : Nat) (hi : i < 64) :
    dstep { quad := 2, left := l, pads := p, out := o, done := false } (enc6 i) =
      { quad := 3, left := i % 4, pads := 0, out := o ++ [UInt8.ofNat ((l * 16 + i / 4) % 256)], done := false } := by
  simp [dstep, enc6_ne_pad i hi, dec6_enc6 i hi]

theorem dstep_q3 (l p : Nat) (o : Bytes) (i : Nat) (hi : i < 64) :
    dstep { quad := 3, left := l, pads := p, out := o, done := false } (enc6 i) =
      { quad := 0, left := 0, pads := 0, out := o ++ [UInt8.ofNat ((l * 64 + i) % 256)], done := false } := by
  simp [dstep, enc6_ne_pad i hi, dec6_enc6 i hi]

theorem ofNat_toNat (a : UInt8) (n : Nat) (h : n = a.toNat) : UInt8.ofNat (n % 256) = a := by
  subst h
  have := toNat_lt a
  rw [Nat.mod_eq_of_lt this]
  exact UInt8.ofNat_toNat

/-- a full quad decodes to its three bytes -/
theorem quad_decodes (o : Bytes) (a b c : UInt8) :
    [enc6 (a.toNat / 4), enc6 (a.toNat % 4 * 16 + b.toNat / 16), enc6 (b.toNat % 16 * 4 + c.toNat / 64),
      enc6 (c.toNat % 64)].foldl dstep (fresh o) = fresh (o ++ [a, b, c]) := by
  have ha := toNat_lt a; have hb := toNat_lt b; have hc := toNat_lt c
  simp only [List.foldl_cons, List.foldl_nil, fresh]
  rw [dstep_q0 _ _ _ _ (by omega), dstep_q1 _ _ _ _ (by omega), dstep_q2 _ _ _ _ (by omega), dstep_q3 _ _ _ _ (by omega)]
  rw [ofNat_toNat a _ (by omega), ofNat_toNat b _ (by omega), ofNat_toNat c _ (by omega)]
  simp

theorem decode_encode_from : ∀ (n : Nat) (d o : Bytes), d.length ≤ n →
    dfinish ((b64encode d).foldl dstep (fresh o)) = .ok (o ++ d) := by
  intro n
  induction n using Nat.strongRecOn with
  | _ n ih =>
    intro d o hn
    match d, hn with
    | [], _ => simp [b64encode, dfinish, fresh]
    | [a], _ =>
      have ha := toNat_lt a
      simp only [b64encode, List.foldl_cons, List.foldl_nil, fresh]
      rw [dstep_q0 _ _ _ _ (by omega), dstep_q1 _ _ _ _ (by omega)]
      rw [ofNat_toNat a _ (by omega)]
      simp [dstep, dfinish]
    | [a, b], _ =>
      have ha := toNat_lt a; have hb := toNat_lt b
      simp only [b64encode, List.foldl_cons, List.foldl_nil, fresh]
      rw [dstep_q0 _ _ _ _ (by omega), dstep_q1 _ _ _ _ (by omega), dstep_q2 _ _ _ _ (by omega)]
      rw [ofNat_toNat a _ (by omega), ofNat_toNat b _ (by omega)]
      simp [dstep, dfinish]
    | a :: b :: c :: rest, hn =>
      simp only [List.length_cons] at hn
      have : b64encode (a :: b :: c :: rest) =
          [enc6 (a.toNat / 4), enc6 (a.toNat % 4 * 16 + b.toNat / 16), enc6 (b.toNat % 16 * 4 + c.toNat / 64),
            enc6 (c.toNat % 64)] ++ b64encode rest := by simp [b64encode]
      rw [this, List.foldl_append, quad_decodes, ih (n - 3) (by omega) rest _ (by omega)]
      simp

/-- **base64**: the decoder inverts the encoder -/
theorem b64decode_encode (d : Bytes) : b64decode (b64encode d) = .ok d := by
  have := decode_encode_from d.length d [] (Nat.le_refl _)
  simpa [b64decode, fresh] using this

/-! ### lines -/

theorem splitNl_ne_nil (d : Bytes) : splitNl d ≠ [] := by
  cases d with
  | nil => simp [splitNl]
  | cons c cs =>
    unfold splitNl
    split
    · simp
    · split <;> simp

theorem splitNl_line (a rest : Bytes) (h : ∀ c ∈ a, c ≠ 10) : splitNl (a ++ 10 :: rest) = a :: splitNl rest := by
  induction a with
  | nil => simp [splitNl]
  | cons x xs ih =>
    have hx : x ≠ 10 := h x (by simp)
    have := ih (fun c hc => h c (by simp [hc]))
    simp only [List.cons_append, splitNl, hx, if_false, this]

theorem lines64_spec : ∀ (fuel : Nat) (d : Bytes), d.length < fuel →
    (lines64 fuel d).flatten = d ∧ ∀ l ∈ lines64 fuel d, l ≠ [] ∧ ∀ c ∈ l, c ∈ d := by
  intro fuel
  induction fuel with
  | zero => intro d h; omega
  | succ fuel ih =>
    intro d h
    unfold lines64
    cases d with
    | nil => simp
    | cons x xs =>
      simp only [List.isEmpty_cons, Bool.false_eq_true, if_false, List.flatten_cons, List.mem_cons]
      obtain ⟨h1, h2⟩ := ih (List.drop 64 (x :: xs)) (by simp only [List.length_drop, List.length_cons] at *; omega)
      refine ⟨by rw [h1]; exact List.take_append_drop 64 (x :: xs), ?_⟩
      intro l hl
      rcases hl with rfl | hl
      · exact ⟨by simp, fun c hc => List.mem_cons.mp (List.mem_of_mem_take hc)⟩
      · obtain ⟨h3, h4⟩ := h2 l hl
        exact ⟨h3, fun c hc => List.mem_cons.mp (List.mem_of_mem_drop (h4 c hc))⟩

theorem strip_id (l : Bytes) (h : ∀ c ∈ l, isWs c = false) : strip l = l := by
  unfold strip
  have h1 : ∀ m : Bytes, (∀ c ∈ m, isWs c = false) → m.dropWhile isWs = m := by
    intro m hm
    cases m with
    | nil => rfl
    | cons x xs => simp [List.dropWhile, hm x (by simp)]
  rw [h1 l h, h1 l.reverse (fun c hc => h c (List.mem_reverse.mp hc)), List.reverse_reverse]

/-- the body lines: written with a newline each, split again, they pass the filter unchanged -/
theorem body_lines (ls : List Bytes) (tail : Bytes) (h : ∀ l ∈ ls, l ≠ [] ∧ ∀ c ∈ l, B64Char c) :
    (((splitNl ((ls.map (· ++ [10])).flatten ++ tail)).filter (fun l => !l.isEmpty && !dashes.isPrefixOf l)).map strip).flatten =
      ls.flatten ++ (((splitNl tail).filter (fun l => !l.isEmpty && !dashes.isPrefixOf l)).map strip).flatten := by
  induction ls with
  | nil => simp
  | cons l ls ih =>
    obtain ⟨hne, hch⟩ := h l (by simp)
    have e : ((l :: ls).map (· ++ [10])).flatten ++ tail = l ++ 10 :: ((ls.map (· ++ [10])).flatten ++ tail) := by simp
    rw [e, splitNl_line l _ (fun c hc => b64char_ne_nl (hch c hc))]
    have hkeep : (!l.isEmpty && !dashes.isPrefixOf l) = true := by
      cases l with
      | nil => exact absurd rfl hne
      | cons x xs =>
        have hx : x ≠ 45 := b64char_ne_dash (hch x (by simp))
        have : (45 == x) = false := by
          simp only [beq_eq_false_iff_ne, ne_eq]
          exact fun h => hx h.symm
        simp [dashes, List.isPrefixOf, this]
    rw [List.filter_cons, if_pos hkeep, List.map_cons, List.flatten_cons,
      strip_id l (fun c hc => b64char_not_ws (hch c hc)), ih (fun m hm => h m (by simp [hm]))]
    simp

/-- **PEM armour round trip**: `unpem(topem(der, name)) == der` for every byte string and every label without a newline -/
theorem unpem_topem (der name : Bytes) (hname : ∀ c ∈ name, c ≠ 10) : unpem (topem der name) = .ok der := by
  unfold unpem topem
  obtain ⟨hflat, hlines⟩ := lines64_spec ((b64encode der).length + 1) (b64encode der) (by omega)
  have hdash : ∀ c ∈ dashes, c ≠ 10 := by decide
  -- the BEGIN line
  have hbegin : ∀ c ∈ beginTxt ++ name ++ dashes, c ≠ 10 := by
    intro c hc
    simp only [List.mem_append] at hc
    rcases hc with (hc | hc) | hc
    · revert c; decide
    · exact hname c hc
    · exact hdash c hc
  have hend : ∀ c ∈ endTxt ++ name ++ dashes, c ≠ 10 := by
    intro c hc
    simp only [List.mem_append] at hc
    rcases hc with (hc | hc) | hc
    · revert c; decide
    · exact hname c hc
    · exact hdash c hc
  have e1 : beginTxt ++ name ++ dashes ++ [10] ++
      ((lines64 ((b64encode der).length + 1) (b64encode der)).map (· ++ [10])).flatten ++ endTxt ++ name ++ dashes ++ [10] =
      (beginTxt ++ name ++ dashes) ++ 10 ::
        (((lines64 ((b64encode der).length + 1) (b64encode der)).map (· ++ [10])).flatten ++
          ((endTxt ++ name ++ dashes) ++ 10 :: [])) := by simp
  rw [e1, splitNl_line _ _ hbegin]
  have hb : (!(beginTxt ++ name ++ dashes).isEmpty && !dashes.isPrefixOf (beginTxt ++ name ++ dashes)) = false := by
    simp [beginTxt, dashes, List.isPrefixOf]
  rw [List.filter_cons, if_neg (by rw [hb]; decide)]
  rw [body_lines _ _ (fun l hl => ⟨(hlines l hl).1, fun c hc =>
    b64encode_chars _ der (Nat.le_refl _) c ((hlines l hl).2 c hc)⟩), hflat]
  rw [splitNl_line _ _ hend]
  have he : (!(endTxt ++ name ++ dashes).isEmpty && !dashes.isPrefixOf (endTxt ++ name ++ dashes)) = false := by
    simp [endTxt, dashes, List.isPrefixOf]
  rw [List.filter_cons, if_neg (by rw [he]; decide)]
  simp only [splitNl, List.filter_cons, List.isEmpty_nil, Bool.not_true, Bool.false_and, Bool.false_eq_true, if_false,
    List.filter_nil, List.map_nil, List.flatten_nil, List.append_nil]
  exact b64decode_encode der

end Bec2Verif.Pem
