import Bec2Verif.Lemmas.EcMul
import Bec2Verif.Lemmas.EcCanon
/-!
The y-coordinate that `generator * k` delivers is reduced (`0 ≤ y < p`).  Unlike x this is not true of every
intermediate value: the table walk passes the *negated* table entry `(X₂, −Y₂, 1)` through when the accumulator is still
infinity.  It holds at the end because a digit −1 is never the last non-zero digit of a non-negative scalar, every table
entry has `0 < y < p`, and every formula ends in `% p`.
-/
set_option linter.unusedVariables false
namespace Bec2Verif.Ec

def YR (p : Int) (t : Triple) : Prop := 0 ≤ t.2.1 ∧ t.2.1 < p

theorem yr_mod (p : Int) (hp : 0 < p) (x v z : Int) : YR p (x, v % p, z) :=
  ⟨Int.emod_nonneg _ (by omega), Int.emod_lt_of_pos _ hp⟩

theorem yr_inf (p : Int) (hp : 0 < p) : YR p (0, 0, 1) := ⟨by simp, by simpa using hp⟩

theorem doubleZ1_yr (p : Int) (hp : 0 < p) (X Y a : Int) : YR p (doubleZ1 X Y p a) := by
  unfold doubleZ1
  simp only
  split
  · exact yr_inf p hp
  · exact yr_mod p hp _ _ _

theorem double__yr (p : Int) (hp : 0 < p) (X Y Z a : Int) : YR p (double_ X Y Z p a) := by
  unfold double_
  simp only
  split
  · exact doubleZ1_yr p hp _ _ _
  · split
    · exact yr_inf p hp
    · split
      · exact yr_inf p hp
      · exact yr_mod p hp _ _ _

theorem addZ1_yr (p : Int) (hp : 0 < p) (X1 Y1 X2 Y2 a : Int) : YR p (addZ1 X1 Y1 X2 Y2 p a) := by
  unfold addZ1
  simp only
  split
  · exact doubleZ1_yr p hp _ _ _
  · exact yr_mod p hp _ _ _

theorem addZeq_yr (p : Int) (hp : 0 < p) (X1 Y1 Z1 X2 Y2 a : Int) : YR p (addZeq X1 Y1 Z1 X2 Y2 p a) := by
  unfold addZeq
  simp only
  split
  · exact double__yr p hp _ _ _ _
  · exact yr_mod p hp _ _ _

theorem addZ2_1_yr (p : Int) (hp : 0 < p) (X1 Y1 Z1 X2 Y2 a : Int) : YR p (addZ2_1 X1 Y1 Z1 X2 Y2 p a) := by
  unfold addZ2_1
  simp only
  split
  · exact doubleZ1_yr p hp _ _ _
  · exact yr_mod p hp _ _ _

theorem addZne_yr (p : Int) (hp : 0 < p) (X1 Y1 Z1 X2 Y2 Z2 a : Int) : YR p (addZne X1 Y1 Z1 X2 Y2 Z2 p a) := by
  unfold addZne
  simp only
  split
  · exact double__yr p hp _ _ _ _
  · exact yr_mod p hp _ _ _

/-- adding a finite operand with a reduced y gives a reduced y, whatever the first operand is -/
theorem add__yr (p : Int) (hp : 0 < p) (X1 Y1 Z1 X2 Y2 Z2 a : Int) (h2 : YR p (X2, Y2, Z2)) (hy : Y2 ≠ 0) (hz : Z2 ≠ 0) :
    YR p (add_ X1 Y1 Z1 X2 Y2 Z2 p a) := by
  unfold add_
  split
  · exact h2
  · split
    · rename_i h
      simp only [Bool.or_eq_true, beq_iff_eq] at h
      rcases h with h | h
      · exact absurd h hy
      · exact absurd h hz
    · split
      · split
        · exact addZ1_yr p hp _ _ _ _ _
        · exact addZeq_yr p hp _ _ _ _ _ _
      · split
        · exact addZ2_1_yr p hp _ _ _ _ _ _
        · split
          · exact addZ2_1_yr p hp _ _ _ _ _ _
          · exact addZne_yr p hp _ _ _ _ _ _ _

theorem mulPrecompLoop_zero (c : Curve) (tab : List (Int × Int)) (acc : Triple) : mulPrecompLoop c tab 0 acc = acc := by
  induction tab generalizing acc with
  | nil => obtain ⟨_, _, _⟩ := acc; rfl
  | cons e es ih =>
    obtain ⟨X2, Y2⟩ := e
    obtain ⟨X3, Y3, Z3⟩ := acc
    unfold mulPrecompLoop
    have : ((0 : Int) % 2 != 0) = false := by decide
    simp only [this, Bool.false_eq_true, if_false]
    have : Int.fdiv 0 2 = 0 := by decide
    rw [this]
    exact ih _

/-- every table entry has `0 < y < p` -/
def TabYR (p : Int) (tab : List (Int × Int)) : Prop := ∀ e ∈ tab, 0 < e.2 ∧ e.2 < p

open EcC in
theorem mulPrecompLoop_yr (c : Curve) (hp : 0 < c.p) (tab : List (Int × Int)) (ht : TabYR c.p tab) (k : Int)
    (acc : Triple) (e : Nat) (hk0 : 0 ≤ k) (hke : k ≤ 2 ^ e) (hlen : e < tab.length) (hacc : YR c.p acc ∨ 0 < k) :
    YR c.p (mulPrecompLoop c tab k acc) := by
  induction tab generalizing k acc e with
  | nil => simp at hlen
  | cons en es ih =>
    obtain ⟨X2, Y2⟩ := en
    obtain ⟨X3, Y3, Z3⟩ := acc
    have hen := ht (X2, Y2) (by simp)
    have hes : TabYR c.p es := fun x hx => ht x (by simp [hx])
    have hb := kstep_bound k e hk0 hke
    -- what happens with the rest of the table
    have hrest : ∀ acc' : Triple, (YR c.p acc' ∨ 0 < kstep k) → YR c.p (mulPrecompLoop c es (kstep k) acc') := by
      intro acc' h'
      by_cases hz : kstep k = 0
      · rw [hz, mulPrecompLoop_zero]
        rcases h' with h' | h'
        · exact h'
        · omega
      · have he : e ≠ 0 := fun h0 => hz (hb.2.2 h0)
        exact ih hes (kstep k) acc' (e - 1) hb.1 hb.2.1 (by simp at hlen; omega) h'
    unfold mulPrecompLoop
    by_cases hodd : (k % 2 != 0) = true
    · simp only [hodd, if_true]
      by_cases h4 : k % 4 ≥ 2
      · simp only [h4, if_true]
        have hks : kstep k = Int.fdiv (k + 1) 2 := by simp [kstep, hodd, h4]
        rw [← hks]
        apply hrest
        right
        rw [hks, Int.fdiv_eq_ediv_of_nonneg _ (by omega)]
        have : k % 2 ≠ 0 := by simpa using hodd
        omega
      · simp only [h4, if_false]
        have hks : kstep k = Int.fdiv (k - 1) 2 := by simp [kstep, hodd, h4]
        rw [← hks]
        apply hrest
        left
        exact add__yr c.p hp _ _ _ _ _ _ _ ⟨by show 0 ≤ Y2; omega, hen.2⟩ (by omega) (by decide)
    · have hev : (k % 2 != 0) = false := by simpa using hodd
      simp only [hev, Bool.false_eq_true, if_false]
      have hks : kstep k = Int.fdiv k 2 := by simp [kstep, hev]
      rw [← hks]
      apply hrest
      rcases hacc with h | h
      · left; exact h
      · right
        rw [hks, Int.fdiv_eq_ediv_of_nonneg _ (by omega)]
        have : k % 2 = 0 := by simpa using hev
        omega

end Bec2Verif.Ec
