import Bec2Verif.Lemmas.Cbc
import Bec2Verif.Model.Bec2
import Bec2Verif.Props.C15
/-! the AES auth-block container: `unwrap ∘ wrap = id` for every crypto that inverts its own zero-padded encryption -/
namespace Bec2Verif
open Bf3 Bec2

/-- the registered crypto inverts its own encryption and keeps the (padded) length -/
structure CryptoInv (C : Crypto) : Prop where
  encLen : ∀ k iv d c, C.encrypt k iv d = .ok c → c.length = (zeroPad d).length
  decEnc : ∀ k iv d c, C.encrypt k iv d = .ok c → C.decrypt k iv c = .ok (zeroPad d)

theorem adapter_cryptoInv (B : BlockCipher) (hB : BlockInv B) : CryptoInv (Adapter.crypto B) where
  encLen := fun k iv d c h => adapter_encrypt_len B hB k iv d c h
  decEnc := fun k iv d c h => adapter_decrypt_encrypt B hB k iv d c h

theorem crcOf_lt (p : Bytes) : crcOf p < 65536 := by
  have := (Props.C15.crc_eq_default (p.map UInt8.toNat) (by
    intro b hb
    simp only [List.mem_map] at hb
    obtain ⟨x, _, rfl⟩ := hb
    exact UInt8.toNat_lt x)).2
  simpa [crcOf] using this

/-- the padding formula: between 1 and 16 zero bytes, frame a whole number of blocks -/
theorem pad_formula (n : Nat) :
    let z := (16 - (2 + 1 + n + 2) % 16) % 16 + 1
    1 ≤ z ∧ z ≤ 16 ∧ (2 + z + n + 2) % 16 = 0 := by
  intro z
  omega

theorem unwrap_wrap (C : Crypto) (hC : CryptoInv C) (key p c : Bytes) (h : wrap C key p = .ok c) :
    unwrap C key c = .ok p := by
  simp only [wrap, Except.bind_eq_ok] at h
  obtain ⟨crc, hcrc, lb, hlb, henc⟩ := h
  obtain ⟨rfl, hcrcv⟩ := toBytesBE_ok hcrc
  simp only [toBE_length] at hlb henc
  obtain ⟨rfl, hlen⟩ := toBytesBE_ok hlb
  have hz := pad_formula p.length
  simp only at hz
  generalize hzdef : (16 - (2 + 1 + p.length + 2) % 16) % 16 + 1 = z at henc hz
  have hflen : ([0x42] ++ toBE 1 (p.length + 2) ++ zeros z ++ p ++ toBE 2 (crcOf p) : Bytes).length
      = 2 + z + p.length + 2 := by
    simp [zeros]; omega
  have haligned : zeroPad ([0x42] ++ toBE 1 (p.length + 2) ++ zeros z ++ p ++ toBE 2 (crcOf p)) =
      [0x42] ++ toBE 1 (p.length + 2) ++ zeros z ++ p ++ toBE 2 (crcOf p) :=
    zeroPad_of_aligned _ (by rw [hflen]; exact hz.2.2)
  have hdec := hC.decEnc _ _ _ _ henc
  have hclen := hC.encLen _ _ _ _ henc
  rw [haligned] at hdec hclen
  rw [hflen] at hclen
  have hpf : parseFrame c.length ([0x42] ++ toBE 1 (p.length + 2) ++ zeros z ++ p ++ toBE 2 (crcOf p)) = .ok p := by
    have ht1 : take 1 ([0x42] ++ toBE 1 (p.length + 2) ++ zeros z ++ p ++ toBE 2 (crcOf p))
        = .ok ([0x42], toBE 1 (p.length + 2) ++ zeros z ++ p ++ toBE 2 (crcOf p)) := by
      have := take_append' (n := 1) [(0x42 : UInt8)] (toBE 1 (p.length + 2) ++ zeros z ++ p ++ toBE 2 (crcOf p)) rfl
      simpa [List.append_assoc] using this
    have ht2 : take 1 (toBE 1 (p.length + 2) ++ zeros z ++ p ++ toBE 2 (crcOf p))
        = .ok (toBE 1 (p.length + 2), zeros z ++ p ++ toBE 2 (crcOf p)) := by
      have := take_append' (n := 1) (toBE 1 (p.length + 2)) (zeros z ++ p ++ toBE 2 (crcOf p)) (by simp)
      simpa [List.append_assoc] using this
    have hdrop : ([0x42] ++ toBE 1 (p.length + 2) ++ zeros z ++ p ++ toBE 2 (crcOf p) : Bytes).drop
        (c.length - (p.length + 2)) = p ++ toBE 2 (crcOf p) := by
      have h1 : c.length - (p.length + 2) = ([0x42] ++ toBE 1 (p.length + 2) ++ zeros z : Bytes).length := by
        simp [zeros]; omega
      rw [h1]
      have := List.drop_left' (l₁ := ([0x42] ++ toBE 1 (p.length + 2) ++ zeros z : Bytes))
        (l₂ := p ++ toBE 2 (crcOf p)) rfl
      simpa [List.append_assoc] using this
    have hnlt : ¬ (c.length < p.length + 2) := by omega
    have hn2 : ¬ (p.length + 2 < 2) := by omega
    unfold parseFrame
    rw [ht1]
    simp only [bind, Except.bind, bne_self_eq_false, Bool.false_eq_true, if_false]
    rw [ht2]
    simp only [fromBE_toBE 1 (p.length + 2) hlen, hnlt, hn2, if_false, hdrop, Nat.add_sub_cancel, take_append]
    rw [take_all (toBE 2 (crcOf p)) (by simp)]
    simp [fromBE_toBE 2 (crcOf p) hcrcv]
  unfold unwrap
  rw [hdec]
  exact hpf

end Bec2Verif
