import Bec2Verif.Lemmas.Total
import Bec2Verif.Model.Bec2
import Bec2Verif.Model.P256
/-! C14 for the BEC2 reader: which exception classes can leave `Bec2File.read_file` -/
namespace Bec2Verif
namespace Bec2
open Bf3

/-- the ECC plug-in raises only permitted classes when a public key is loaded or a secret is computed
(`P256`: `p256_loadRaw_total`, `p256_dh_errs`) -/
structure EccTotal (E : Ecc) (ext : List Encryptor) : Prop where
  load : ∀ raw, Total (E.loadRaw raw)
  /-- for the private keys of the decryptors on offer -/
  dh : ∀ s d, Encryptor.eccPriv s d ∈ ext → ∀ pub, Total (E.dh d pub)

theorem parseFrame_total (n : Nat) (frame : Bytes) : Total (parseFrame n frame) := by
  unfold parseFrame
  refine Errs.bind (take_total _ _) ?_
  intro mr _
  refine Errs.ite (fun _ => Errs.error rfl) (fun _ => ?_)
  refine Errs.bind (take_total _ _) ?_
  intro lr _
  refine Errs.ite (fun _ => Errs.error rfl) (fun _ => ?_)
  refine Errs.bind (Errs.ite (fun _ => Errs.ok _) (fun _ => take_total _ _)) ?_
  intro pr _
  refine Errs.bind (take_total _ _) ?_
  intro cr _
  exact Errs.ite (fun _ => Errs.error rfl) (fun _ => Errs.ok _)

theorem unwrap_total (C : Crypto) (hC : CryptoTotal C) (key ct : Bytes) : Total (unwrap C key ct) := by
  unfold unwrap
  exact Errs.bind (hC.dec _ _ _) (fun _ _ => parseFrame_total _ _)

theorem custKeyDecrypt_total (C : Crypto) (hC : CryptoTotal C) (key ck : Bytes) (pos : Int) (ct : Bytes) :
    Total (custKeyDecrypt C key ck pos ct) := by
  unfold custKeyDecrypt
  refine Errs.bind (unwrap_total C hC _ _) ?_
  intro p _
  refine Errs.ite (fun _ => Errs.pure' _) (fun _ => ?_)
  exact Errs.ite (fun _ => Errs.throw' rfl) (fun _ => Errs.pure' _)

theorem eccDecrypt_total (env : Env) (hC : CryptoTotal env.C) (hload : ∀ raw, Total (env.E.loadRaw raw)) (priv : Nat)
    (hdh : ∀ pub, Total (env.E.dh priv pub)) (ct : Bytes) : Total (eccDecrypt env priv ct) := by
  unfold eccDecrypt
  refine Errs.bind (take_total _ _) ?_
  rintro ⟨m, r1⟩ _
  refine Errs.ite (fun _ => Errs.throw_bind rfl) (fun _ => ?_)
  refine Errs.bind (take_total _ _) ?_
  rintro ⟨raw, r2⟩ _
  refine Errs.bind (hload _) ?_
  intro pub _
  refine Errs.bind (take_total _ _) ?_
  rintro ⟨enc, r3⟩ _
  refine Errs.bind (hdh _) ?_
  intro secret _
  exact hC.dec _ _ _

/-- permitted, or one of the two classes `unpack_auth_blocks` turns into an unknown block -/
def Err.Soft (e : Err) : Prop := e.Allowed ∨ e = .keyError ∨ e = .notImplemented

theorem soft_of_allowed {α : Type} {r : Except Err α} (h : Total r) : Errs Err.Soft r := h.mono (fun _ h => Or.inl h)

theorem encDecrypt_soft (env : Env) (hC : CryptoTotal env.C) (ext : List Encryptor) (hE : EccTotal env.E ext)
    (e : Encryptor) (he : e ∈ ext) (ct : Bytes) : Errs Err.Soft (encDecrypt env e ct) := by
  cases e with
  | custKey key ck pos => exact soft_of_allowed (custKeyDecrypt_total _ hC _ _ _ _)
  | csc code => exact soft_of_allowed (unwrap_total _ hC _ _)
  | eccPub s p => exact Errs.error (Or.inr (Or.inr rfl))
  | eccPriv s priv => exact soft_of_allowed (eccDecrypt_total env hC hE.load _ (hE.dh s priv he) _)

theorem selectEncryptor_soft (k : Kind) (ext : List Encryptor) (fb : Option Encryptor) (sel : Option Nat) :
    Errs Err.Soft (selectEncryptor k ext fb sel) := by
  unfold selectEncryptor
  split
  · exact Errs.ok _
  · split
    · exact Errs.ok _
    · exact Errs.error (Or.inr (Or.inl rfl))

theorem selectEncryptor_mem {k : Kind} {ext : List Encryptor} {sel : Option Nat} {e : Encryptor}
    (h : selectEncryptor k ext none sel = .ok e) : e ∈ ext := by
  unfold selectEncryptor at h
  split at h
  · rename_i e' hf
    injection h with h
    subst h
    exact List.mem_of_find?_eq_some hf
  · cases h

theorem unpackBlock_soft (env : Env) (hC : CryptoTotal env.C) (tag : Nat) (raw : Bytes)
    (ext : List Encryptor) (hE : EccTotal env.E ext) : Errs Err.Soft (unpackBlock env tag raw ext) := by
  unfold unpackBlock
  refine Errs.ite (fun _ => ?_) (fun _ => Errs.ite (fun _ => ?_) (fun _ => Errs.ite (fun _ => ?_) (fun _ => ?_)))
  · refine Errs.bind (selectEncryptor_soft _ _ _ _) ?_
    intro e he
    exact Errs.bind (encDecrypt_soft env hC ext hE _ (selectEncryptor_mem he) _) (fun _ _ => Errs.pure' _)
  · cases raw with
    | nil => exact Errs.throw' (Or.inl rfl)
    | cons s rest =>
      refine Errs.bind (selectEncryptor_soft _ _ _ _) ?_
      intro e he
      exact Errs.bind (encDecrypt_soft env hC ext hE _ (selectEncryptor_mem he) _) (fun _ _ => Errs.pure' _)
  · refine Errs.bind (selectEncryptor_soft _ _ _ _) ?_
    intro e he
    refine Errs.bind (encDecrypt_soft env hC ext hE _ (selectEncryptor_mem he) _) ?_
    intro blk _
    refine Errs.bind (soft_of_allowed (take_total _ _)) ?_
    rintro ⟨sk, r⟩ _
    refine Errs.bind (soft_of_allowed (take_total _ _)) ?_
    rintro ⟨vb, r2⟩ _
    exact Errs.pure' _
  · exact Errs.error (Or.inr (Or.inl rfl))

/-- the header loop never runs out of fuel (every iteration consumes at least the two tag/length bytes) and lets only
permitted classes out: `KeyError` and `NotImplementedError` are turned into unknown blocks -/
theorem unpackBlocks_total (env : Env) (hC : CryptoTotal env.C) (ext : List Encryptor) (hE : EccTotal env.E ext)
    (fuel : Nat) (bs : Bytes) (acc : List AuthBlock) (common : Option Bytes) (used : Nat) (hf : bs.length < fuel) :
    Total (unpackBlocks env ext fuel bs acc common used) := by
  induction fuel generalizing bs acc common used with
  | zero => omega
  | succ f ih =>
    unfold unpackBlocks
    refine Errs.bind (readInt_total _ _) ?_
    rintro ⟨tag, r1⟩ h1
    refine Errs.bind (readInt_total _ _) ?_
    rintro ⟨len, r2⟩ h2
    refine Errs.bind (take_total _ _) ?_
    rintro ⟨val, r3⟩ h3
    have l1 := readInt_len h1
    have l2 := readInt_len h2
    have l3 := take_len h3
    have hr3 : r3.length < f := by omega
    refine Errs.ite (fun _ => Errs.pure' _) (fun _ => ?_)
    have hub : Errs Err.Soft (if Gen.AUTH_BLOCK_TAGS.contains tag then unpackBlock env tag val ext else .error .keyError) :=
      Errs.ite (fun _ => unpackBlock_soft env hC _ _ ext hE) (fun _ => Errs.error (Or.inr (Or.inl rfl)))
    generalize (if Gen.AUTH_BLOCK_TAGS.contains tag then unpackBlock env tag val ext else .error .keyError) = res at hub
    split
    · exact ih _ _ _ _ hr3
    · exact ih _ _ _ _ hr3
    · rename_i e hk hn
      rcases hub.out _ rfl with h | h | h
      · exact Errs.error h
      · exact absurd h (by intro h'; exact hk (by rw [h']))
      · exact absurd h (by intro h'; exact hn (by rw [h']))
    · split
      · exact Errs.ite (fun _ => Errs.error rfl) (fun _ => ih _ _ _ _ hr3)
      · exact ih _ _ _ _ hr3

theorem readBinary_total (env : Env) (hC : CryptoTotal env.C) (ext : List Encryptor) (hE : EccTotal env.E ext)
    (chk : Bool) (bin : Bytes) (ρ : Bytes := []) : Total (readBinary env ext chk bin ρ) := by
  unfold readBinary
  refine Errs.bind (take_total _ _) ?_
  rintro ⟨sig, r⟩ _
  refine Errs.ite (fun _ => Errs.throw_bind rfl) (fun _ => ?_)
  refine Errs.bind (unpackBlocks_total env hC ext hE _ _ _ _ _ (by omega)) ?_
  rintro ⟨blocks, common, r', used⟩ _
  cases common with
  | none => exact Errs.throw' rfl
  | some sk =>
    exact Errs.bind (Bf3.fromBinary_total _ hC _ _ _ _) (fun _ _ => Errs.pure' _)

end Bec2

/-! ### the P-256 plug-in -/
namespace P256

theorem loadRaw_errs (raw : Bytes) : Errs (· = .valueError) (loadRaw raw) := by
  unfold loadRaw
  exact Errs.ite (fun _ => Errs.error rfl) (fun _ => Errs.ite (fun _ => Errs.ok _) (fun _ => Errs.error rfl))

theorem loadRaw_total (raw : Bytes) : Total (loadRaw raw) :=
  (loadRaw_errs raw).mono (by intro e h; subst h; rfl)

/-- `compute_dh_secret` raises `ValueError` (invalid key) or python-ecdsa's `InvalidSharedSecretError`; the latter
needs `d·Q = ∞` for a valid point `Q`, i.e. `n ∣ d` (group law, C17) - no `EccDecryptor` holds such a scalar -/
theorem dh_errs (d : Nat) (pub : Bytes) : Errs (fun e => e = .valueError ∨ e = .invalidSharedSecret) (dh d pub) := by
  unfold dh
  refine Errs.bind ((loadRaw_errs pub).mono (fun _ h => Or.inl h)) ?_
  intro raw _
  simp only
  split
  · split
    · exact Errs.ok _
    · exact Errs.error (Or.inr rfl)
    · exact Errs.error (Or.inl rfl)
  · exact Errs.error (Or.inl rfl)

end P256
end Bec2Verif
