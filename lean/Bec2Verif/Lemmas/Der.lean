import Bec2Verif.Lemmas.Bytes
import Bec2Verif.Model.Der
/-! Round trips and truncation rejection for the DER primitives -/
namespace Bec2Verif.Der
open Bec2Verif

/-! ### minimal big-endian bytes -/

theorem fromBE_cons (x : UInt8) (acc : Bytes) : fromBE (x :: acc) = x.toNat * 256 ^ acc.length + fromBE acc := by
  have : fromBE (x :: acc) = fromBE ([x] ++ acc) := rfl
  rw [this, fromBE_append]
  simp [fromBE]

theorem beAux_spec (fuel n : Nat) (acc : Bytes) (h : n < 256 ^ (fuel + 1)) :
    fromBE (beAux (fuel + 1) n acc) = n * 256 ^ acc.length + fromBE acc ∧
    (beAux (fuel + 1) n acc).length ≥ acc.length + 1 ∧
    (0 < n → ((beAux (fuel + 1) n acc).head?.getD 0).toNat ≠ 0) := by
  induction fuel generalizing n acc with
  | zero =>
    have hn : n < 256 := by simpa using h
    unfold beAux
    simp only [hn, if_true]
    refine ⟨?_, by simp, ?_⟩
    · rw [fromBE_cons]
      have : (UInt8.ofNat n).toNat = n := by simp [UInt8.toNat_ofNat']; omega
      rw [this]
    · intro hpos
      simp [UInt8.toNat_ofNat']
      omega
  | succ f ih =>
    unfold beAux
    by_cases hn : n < 256
    · simp only [hn, if_true]
      refine ⟨?_, by simp, ?_⟩
      · rw [fromBE_cons]
        have : (UInt8.ofNat n).toNat = n := by simp [UInt8.toNat_ofNat']; omega
        rw [this]
      · intro hpos
        simp [UInt8.toNat_ofNat']
        omega
    · simp only [hn, if_false]
      have hd : n / 256 < 256 ^ (f + 1) := by
        rw [Nat.pow_succ] at h
        exact Nat.div_lt_of_lt_mul (by rw [Nat.mul_comm]; exact h)
      obtain ⟨h1, h2, h3⟩ := ih (n / 256) (UInt8.ofNat (n % 256) :: acc) hd
      refine ⟨?_, by simp at h2 ⊢; omega, fun _ => h3 (by omega)⟩
      rw [h1, fromBE_cons]
      have hm : (UInt8.ofNat (n % 256)).toNat = n % 256 := by simp [UInt8.toNat_ofNat']
      rw [hm]
      simp only [List.length_cons, Nat.pow_succ]
      have := Nat.div_add_mod n 256
      calc n / 256 * (256 ^ acc.length * 256) + (n % 256 * 256 ^ acc.length + fromBE acc)
          = (256 * (n / 256) + n % 256) * 256 ^ acc.length + fromBE acc := by
            rw [Nat.add_mul, Nat.mul_comm (256 ^ acc.length) 256, ← Nat.mul_assoc, Nat.mul_comm (n / 256) 256, Nat.add_assoc]
        _ = n * 256 ^ acc.length + fromBE acc := by rw [this]

theorem lt_pow_succ (n : Nat) : n < 256 ^ (n + 1) := by
  have : n < 2 ^ n := Nat.lt_two_pow_self
  have h2 : 2 ^ n ≤ 256 ^ (n + 1) := by
    calc 2 ^ n ≤ 256 ^ n := Nat.pow_le_pow_left (by omega) n
      _ ≤ 256 ^ (n + 1) := Nat.pow_le_pow_right (by omega) (by omega)
  omega

theorem fromBE_beBytes (n : Nat) : fromBE (beBytes n) = n := by
  have := (beAux_spec n n [] (lt_pow_succ n)).1
  simpa [beBytes, fromBE] using this

theorem beBytes_ne_nil (n : Nat) : beBytes n ≠ [] := by
  have := (beAux_spec n n [] (lt_pow_succ n)).2.1
  intro h
  rw [beBytes] at h
  rw [h] at this
  simp at this

theorem beBytes_head (n : Nat) (h : 0 < n) : ((beBytes n).head?.getD 0).toNat ≠ 0 :=
  (beAux_spec n n [] (lt_pow_succ n)).2.2 h

/-- a one-byte result is the number itself -/
theorem beBytes_single (n : Nat) (h : (beBytes n).length = 1) : beBytes n = [UInt8.ofNat n] ∧ n < 256 := by
  have hv := fromBE_beBytes n
  match hb : beBytes n with
  | [] => simp [hb] at h
  | [b] =>
    rw [hb] at hv
    simp [fromBE] at hv
    have hlt := b.toNat_lt
    refine ⟨?_, by omega⟩
    congr 1
    apply UInt8.toNat_inj.mp
    simp [UInt8.toNat_ofNat']
    omega
  | _ :: _ :: _ => simp [hb] at h

/-! ### lengths -/

/-- the length field is readable: every length whose big-endian form has fewer than 128 bytes -/
theorem readLength_encodeLength (l : Nat) (rest : Bytes) (hl : (beBytes l).length < 128) :
    readLength (encodeLength l ++ rest) = .ok (l, (encodeLength l).length) := by
  unfold encodeLength
  by_cases hs : l < 0x80
  · simp only [hs, if_true, List.cons_append, List.nil_append, readLength, List.length_singleton]
    have : (UInt8.ofNat l).toNat = l := by simp [UInt8.toNat_ofNat']; omega
    simp [this, hs]
  · simp only [hs, if_false, List.cons_append, readLength]
    have hne := beBytes_ne_nil l
    have hlen1 : 1 ≤ (beBytes l).length := by
      cases hb : beBytes l with
      | nil => exact absurd hb hne
      | cons _ _ => simp
    have hb0 : (UInt8.ofNat (0x80 + (beBytes l).length)).toNat = 0x80 + (beBytes l).length := by
      simp [UInt8.toNat_ofNat']; omega
    rw [hb0]
    have c1 : ¬ (0x80 + (beBytes l).length < 0x80) := by omega
    simp only [c1, if_false, Nat.add_sub_cancel_left]
    have c2 : ¬ ((beBytes l).length = 0) := by omega
    have c3 : ¬ ((beBytes l).length > (beBytes l ++ rest).length) := by simp
    simp only [c2, c3, if_false]
    cases hb : beBytes l with
    | nil => exact absurd hb hne
    | cons msb tl =>
      simp only [List.cons_append]
      have hhead := beBytes_head l (by omega)
      rw [hb] at hhead
      simp only [List.head?_cons, Option.getD_some] at hhead
      have c4 : (msb.toNat = 0 || (decide ((msb :: tl).length = 1) && decide (msb.toNat < 0x80))) = false := by
        simp only [Bool.or_eq_false_iff, Bool.and_eq_false_iff, decide_eq_false_iff_not, beq_eq_false_iff_ne, ne_eq]
        refine ⟨by simpa using hhead, ?_⟩
        by_cases h1 : (msb :: tl).length = 1
        · right
          have hs1 := beBytes_single l (by rw [hb]; exact h1)
          rw [hb] at hs1
          have : msb = UInt8.ofNat l := by
            have := hs1.1; simp at this; exact this.1
          rw [this]
          simp [UInt8.toNat_ofNat']
          omega
        · left; exact h1
      simp only [List.length_cons] at c4 ⊢
      simp only [c4, Bool.false_eq_true, if_false]
      have ht : List.take (tl.length + 1) (msb :: (tl ++ rest)) = msb :: tl := by
        simp [List.take_succ_cons, List.take_left']
      rw [ht, ← hb, fromBE_beBytes]
      simp [Nat.add_comm]

/-! ### element round trips -/

/-- a length is encodable when its big-endian form has fewer than 128 bytes (always, in practice) -/
def Encodable (l : Nat) : Prop := (beBytes l).length < 128

theorem sliceBody_spec (t : UInt8) (hdr body rest : Bytes) :
    sliceBody (t :: (hdr ++ (body ++ rest))) (1 + hdr.length) body.length = (body, rest) := by
  unfold sliceBody
  have h1 : (t :: (hdr ++ (body ++ rest))).drop (1 + hdr.length) = body ++ rest := by
    rw [Nat.add_comm, List.drop_succ_cons, List.drop_left]
  have h2 : (t :: (hdr ++ (body ++ rest))).drop (1 + hdr.length + body.length) = rest := by
    have : 1 + hdr.length + body.length = (hdr.length + body.length) + 1 := by omega
    rw [this, List.drop_succ_cons, ← List.append_assoc]
    have : hdr.length + body.length = (hdr ++ body).length := by simp
    rw [this, List.drop_left]
  rw [h1, h2, List.take_left]

theorem removeOctetString_encode (body rest : Bytes) (h : Encodable body.length) :
    removeOctetString (encodeOctetString body ++ rest) = .ok (body, rest) := by
  simp only [encodeOctetString, List.cons_append, List.append_assoc, removeOctetString,
    bne_self_eq_false, Bool.false_eq_true, if_false, readLength_encodeLength _ _ h, sliceBody_spec]

theorem removeSequence_encode (pieces : List Bytes) (rest : Bytes) (h : Encodable pieces.flatten.length) :
    removeSequence (encodeSequence pieces ++ rest) = .ok (pieces.flatten, rest) := by
  simp only [encodeSequence, List.cons_append, List.append_assoc, removeSequence,
    bne_self_eq_false, Bool.false_eq_true, if_false, readLength_encodeLength _ _ h]
  have hlen : ¬ (pieces.flatten.length >
      (0x30 :: (encodeLength pieces.flatten.length ++ (pieces.flatten ++ rest))).length - 1 - (encodeLength pieces.flatten.length).length) := by
    simp only [List.length_cons, List.length_append]; omega
  simp only [hlen, if_false, sliceBody_spec]

theorem removeBitstring_encode (body rest : Bytes) (h : Encodable (body.length + 1)) :
    removeBitstring (encodeBitstring0 body ++ rest) 0 = .ok (body, rest) := by
  simp only [encodeBitstring0, List.cons_append, List.append_assoc, removeBitstring,
    bne_self_eq_false, Bool.false_eq_true, if_false, readLength_encodeLength _ _ h]
  have hz : ¬ (body.length + 1 = 0) := by omega
  simp only [hz, if_false]
  have := sliceBody_spec 0x03 (encodeLength (body.length + 1)) (0 :: body) rest
  simp only [List.length_cons, List.cons_append] at this
  rw [this]
  simp

theorem removeConstructed_encode (tag : Nat) (htag : tag < 32) (value rest : Bytes) (h : Encodable value.length) :
    removeConstructed (encodeConstructed tag value ++ rest) = .ok (tag, value, rest) := by
  simp only [encodeConstructed, List.cons_append, List.append_assoc, removeConstructed]
  have hb : (UInt8.ofNat (0xA0 + tag)).toNat = 0xA0 + tag := by simp [UInt8.toNat_ofNat']; omega
  rw [hb]
  have c1 : ((0xA0 + tag) / 32 != 5) = false := by
    simp; omega
  simp only [c1, Bool.false_eq_true, if_false, readLength_encodeLength _ _ h, sliceBody_spec]
  congr 2
  omega

/-- INTEGER: encode then decode gives the number back (numbers below 2^1000, i.e. content shorter than 127 bytes) -/
theorem removeInteger_encode (r : Nat) (rest : Bytes) (h : (beBytes r).length + 1 < 128) :
    removeInteger (encodeInteger r ++ rest) = .ok (r, rest) := by
  have hne := beBytes_ne_nil r
  have hval := fromBE_beBytes r
  have short : ∀ k, k < 128 → encodeLength k = [UInt8.ofNat k] := by
    intro k hk; simp [encodeLength, hk]
  have rdshort : ∀ k (tl : Bytes), k < 128 → readLength (UInt8.ofNat k :: tl) = .ok (k, 1) := by
    intro k tl hk
    have : (UInt8.ofNat k).toNat = k := by simp [UInt8.toNat_ofNat']; omega
    simp [readLength, this, hk]
  cases hb : beBytes r with
  | nil => exact absurd hb hne
  | cons msb tl =>
    rw [hb] at h hval
    simp only [List.length_cons] at h
    unfold encodeInteger
    simp only [hb, List.head?_cons, Option.getD_some, List.length_cons]
    by_cases hm : msb.toNat ≤ 0x7F
    · simp only [hm, if_true]
      rw [short _ (by omega)]
      simp only [List.cons_append, List.nil_append, removeInteger, bne_self_eq_false, Bool.false_eq_true, if_false,
        rdshort _ _ (show tl.length + 1 < 128 by omega)]
      have c1 : ¬ (tl.length + 1 > (0x02 :: UInt8.ofNat (tl.length + 1) :: msb :: (tl ++ rest)).length - 1 - 1) := by
        simp only [List.length_cons, List.length_append]; omega
      have c2 : ¬ (tl.length + 1 = 0) := by omega
      simp only [c1, c2, if_false]
      have hs := sliceBody_spec 0x02 [UInt8.ofNat (tl.length + 1)] (msb :: tl) rest
      simp only [List.length_singleton, List.length_cons, List.length_nil, List.cons_append, List.nil_append, Nat.zero_add] at hs
      rw [hs]
      simp only
      have c3 : ¬ (msb.toNat ≥ 0x80) := by omega
      simp only [c3, if_false]
      have c4 : (decide (tl.length + 1 > 1) && decide (msb.toNat = 0) && decide ((tl.head?.getD 0).toNat < 0x80)) = false := by
        by_cases hz : msb.toNat = 0
        · have hpos : ¬ 0 < r := by
            intro hp
            have := beBytes_head r hp
            rw [hb] at this
            simp at this
            exact this hz
          have hr0 : r = 0 := by omega
          have : beBytes 0 = [0] := by decide
          rw [hr0, this] at hb
          injection hb with _ htl
          subst htl
          simp
        · simp [hz]
      simp only [c4, Bool.false_eq_true, if_false]
      rw [hval]
    · simp only [hm, if_false]
      rw [short _ (by omega)]
      simp only [List.cons_append, List.nil_append, removeInteger, bne_self_eq_false, Bool.false_eq_true, if_false,
        rdshort _ _ (show tl.length + 1 + 1 < 128 by omega)]
      have c1 : ¬ (tl.length + 1 + 1 > (0x02 :: UInt8.ofNat (tl.length + 1 + 1) :: 0 :: msb :: (tl ++ rest)).length - 1 - 1) := by
        simp only [List.length_cons, List.length_append]; omega
      have c2 : ¬ (tl.length + 1 + 1 = 0) := by omega
      simp only [c1, c2, if_false]
      have hs := sliceBody_spec 0x02 [UInt8.ofNat (tl.length + 1 + 1)] (0 :: msb :: tl) rest
      simp only [List.length_singleton, List.length_cons, List.length_nil, List.cons_append, List.nil_append, Nat.zero_add] at hs
      rw [hs]
      simp only
      have c3 : ¬ ((0 : UInt8).toNat ≥ 0x80) := by decide
      simp only [c3, if_false]
      have c4 : (decide (tl.length + 1 + 1 > 1) && decide ((0 : UInt8).toNat = 0) &&
          decide (((msb :: tl).head?.getD 0).toNat < 0x80)) = false := by
        have : ¬ (msb.toNat < 0x80) := by omega
        simp [this]
      simp only [c4, Bool.false_eq_true, if_false]
      have : fromBE (0 :: msb :: tl) = fromBE (msb :: tl) := by
        rw [fromBE_cons]; simp
      rw [this, hval]

/-! ### truncation -/

/-- a cut length field is never readable -/
theorem readLength_prefix (L j : Nat) (h : Encodable L) (hj : j < (encodeLength L).length) :
    ∃ e, readLength ((encodeLength L).take j) = .error e := by
  unfold encodeLength at *
  by_cases hs : L < 0x80
  · simp only [hs, if_true, List.length_singleton] at hj ⊢
    have : j = 0 := by omega
    subst this
    exact ⟨_, rfl⟩
  · simp only [hs, if_false, List.length_cons] at hj ⊢
    cases j with
    | zero => exact ⟨_, rfl⟩
    | succ j' =>
      simp only [List.take_succ_cons, readLength]
      have hb0 : (UInt8.ofNat (0x80 + (beBytes L).length)).toNat = 0x80 + (beBytes L).length := by
        have : (beBytes L).length < 128 := h
        simp [UInt8.toNat_ofNat']; omega
      rw [hb0]
      have c1 : ¬ (0x80 + (beBytes L).length < 0x80) := by omega
      simp only [c1, if_false, Nat.add_sub_cancel_left]
      have hne := beBytes_ne_nil L
      have c2 : ¬ ((beBytes L).length = 0) := by
        intro h0; exact hne (List.length_eq_zero_iff.mp h0)
      have c3 : (beBytes L).length > (List.take j' (beBytes L)).length := by
        simp only [List.length_take]; omega
      simp only [c2, c3, if_false, if_true]
      exact ⟨_, rfl⟩

/-- C19: `remove_sequence` rejects every proper prefix of an encoded sequence -/
theorem removeSequence_truncated (pieces : List Bytes) (k : Nat) (h : Encodable pieces.flatten.length)
    (hk : k < (encodeSequence pieces).length) : ∃ e, removeSequence ((encodeSequence pieces).take k) = .error e := by
  unfold encodeSequence at *
  generalize pieces.flatten = body at *
  simp only at hk ⊢
  cases k with
  | zero => exact ⟨_, rfl⟩
  | succ k =>
    simp only [List.cons_append, List.take_succ_cons, removeSequence, bne_self_eq_false, Bool.false_eq_true, if_false]
    by_cases hcut : k < (encodeLength body.length).length
    · have htake : List.take k (encodeLength body.length ++ body) = List.take k (encodeLength body.length) :=
        List.take_append_of_le_length (by omega)
      obtain ⟨e, he⟩ := readLength_prefix body.length k h hcut
      simp only [htake, he]
      exact ⟨e, rfl⟩
    · have hfull : List.take k (encodeLength body.length ++ body) =
          encodeLength body.length ++ List.take (k - (encodeLength body.length).length) body := by
        rw [List.take_append]
        rw [List.take_of_length_le (by omega)]
      simp only [hfull, readLength_encodeLength _ _ h]
      have hlt : body.length > (0x30 :: (encodeLength body.length ++ List.take (k - (encodeLength body.length).length) body)).length
          - 1 - (encodeLength body.length).length := by
        simp only [List.length_cons, List.length_append, List.length_take] at hk ⊢
        omega
      simp only [hlt, if_true]
      exact ⟨_, rfl⟩

end Bec2Verif.Der

namespace Bec2Verif.Der
open Bec2Verif

/-! ### OBJECT IDENTIFIER -/

/-- value of a base-128 digit list (most significant first), ignoring the continuation bits -/
def val128 (ds : List Nat) : Nat := ds.foldl (fun acc d => acc * 128 + d % 128) 0

theorem val128_append (a b : List Nat) : val128 (a ++ b) = val128 a * 128 ^ b.length + val128 b := by
  unfold val128
  rw [List.foldl_append]
  generalize List.foldl (fun acc d => acc * 128 + d % 128) 0 a = init
  induction b generalizing init with
  | nil => simp
  | cons x xs ih =>
    simp only [List.foldl_cons, List.length_cons]
    rw [ih (init * 128 + x % 128), ih (0 * 128 + x % 128)]
    rw [Nat.pow_succ, Nat.add_mul]
    simp [Nat.mul_assoc, Nat.mul_comm, Nat.add_assoc]

/-- digits produced by `b128Aux`: all carry the continuation bit, none is `0x80` at the front, value is `n` -/
theorem b128Aux_spec (fuel n : Nat) (acc : List Nat) (h : n < 128 ^ fuel) (hacc : ∀ d ∈ acc, 128 ≤ d ∧ d < 256) :
    val128 (b128Aux fuel n acc) = n * 128 ^ acc.length + val128 acc ∧
    (∀ d ∈ b128Aux fuel n acc, 128 ≤ d ∧ d < 256) ∧
    (0 < n → (b128Aux fuel n acc).head?.getD 0 ≠ 128) ∧
    (0 < n → b128Aux fuel n acc ≠ []) ∧ (n = 0 → b128Aux fuel n acc = acc) := by
  induction fuel generalizing n acc with
  | zero =>
    have : n = 0 := by simpa using h
    subst this
    simp only [b128Aux]
    exact ⟨by simp, hacc, by simp, by simp, fun _ => trivial⟩
  | succ f ih =>
    unfold b128Aux
    by_cases hn : n = 0
    · subst hn
      simp only [if_true]
      exact ⟨by simp, hacc, by simp, by simp, fun _ => trivial⟩
    · simp only [hn, if_false]
      have hd : n / 128 < 128 ^ f := by
        rw [Nat.pow_succ] at h
        exact Nat.div_lt_of_lt_mul (by rw [Nat.mul_comm]; exact h)
      have hacc' : ∀ d ∈ (n % 128 + 128) :: acc, 128 ≤ d ∧ d < 256 := by
        intro d hd'
        simp only [List.mem_cons] at hd'
        rcases hd' with rfl | hd'
        · omega
        · exact hacc d hd'
      obtain ⟨h1, h2, h3, h4, h5⟩ := ih (n / 128) ((n % 128 + 128) :: acc) hd hacc'
      refine ⟨?_, h2, ?_, ?_, fun h0 => h0.elim⟩
      · rw [h1]
        have hv : val128 ((n % 128 + 128) :: acc) = (n % 128) * 128 ^ acc.length + val128 acc := by
          have : (n % 128 + 128) :: acc = [n % 128 + 128] ++ acc := rfl
          rw [this, val128_append]
          simp [val128]
        rw [hv]
        simp only [List.length_cons, Nat.pow_succ]
        have := Nat.div_add_mod n 128
        calc n / 128 * (128 ^ acc.length * 128) + (n % 128 * 128 ^ acc.length + val128 acc)
            = (128 * (n / 128) + n % 128) * 128 ^ acc.length + val128 acc := by
              rw [Nat.add_mul, Nat.mul_comm (128 ^ acc.length) 128, ← Nat.mul_assoc, Nat.mul_comm (n / 128) 128, Nat.add_assoc]
          _ = n * 128 ^ acc.length + val128 acc := by rw [this]
      · intro _
        by_cases hq : n / 128 = 0
        · rw [h5 hq]
          simp only [List.head?_cons, Option.getD_some]
          have : n % 128 = n := by omega
          omega
        · exact h3 (by omega)
      · intro _
        by_cases hq : n / 128 = 0
        · rw [h5 hq]; simp
        · exact h4 (by omega)

end Bec2Verif.Der
