import Mathlib.Data.ZMod.Basic
import Mathlib.FieldTheory.Finite.Basic
import Mathlib.Tactic.LinearCombination
import Mathlib.Tactic.Ring
/-!
A kernel-checkable certificate that a cubic `x³ + a·x + b` has no root in `F_p`: compute `x^p` in `F_p[x]/(f)` by
squaring (on coefficient triples), subtract `x` (every root satisfies `r^p = r`), and exhibit an inverse of the result
modulo `f`. A common root would make `0 · B(r) = 1`.
-/
namespace Bec2Verif.Cubic

abbrev T := ℤ × ℤ × ℤ

/-- product of `u₀ + u₁x + u₂x²` and `v₀ + v₁x + v₂x²` modulo `x³ + a·x + b` and modulo `p` -/
def mulT (p a b : ℤ) (u v : T) : T :=
  let d0 := u.1 * v.1
  let d1 := u.1 * v.2.1 + u.2.1 * v.1
  let d2 := u.1 * v.2.2 + u.2.1 * v.2.1 + u.2.2 * v.1
  let d3 := u.2.1 * v.2.2 + u.2.2 * v.2.1
  let d4 := u.2.2 * v.2.2
  ((d0 - b * d3) % p, (d1 - a * d3 - b * d4) % p, (d2 - a * d4) % p)

def eval {F : Type} [Field F] (u : T) (r : F) : F := (u.1 : F) + (u.2.1 : F) * r + (u.2.2 : F) * r ^ 2

/-- `x^e` modulo the cubic (`fuel` ≥ bit length of `e`) -/
def powX (p a b : ℤ) : Nat → Nat → T
  | 0, _ => (1, 0, 0)
  | f+1, e =>
    if e = 0 then (1, 0, 0) else
    let h := powX p a b f (e / 2)
    let s := mulT p a b h h
    if e % 2 = 1 then mulT p a b s (0, 1, 0) else s

variable {p : ℕ} [hp : Fact p.Prime]

theorem mulT_eval (a b : ℤ) (u v : T) (r : ZMod p) (hr : r ^ 3 + (a : ZMod p) * r + (b : ZMod p) = 0) :
    eval (mulT p a b u v) r = eval u r * eval v r := by
  obtain ⟨u0, u1, u2⟩ := u
  obtain ⟨v0, v1, v2⟩ := v
  simp only [eval, mulT, ZMod.intCast_mod]
  push_cast
  linear_combination (-((u1 : ZMod p) * v2 + u2 * v1 + (u2 : ZMod p) * v2 * r)) * hr

theorem powX_eval (a b : ℤ) (r : ZMod p) (hr : r ^ 3 + (a : ZMod p) * r + (b : ZMod p) = 0) (f e : ℕ) (he : e < 2 ^ f) :
    eval (powX p a b f e) r = r ^ e := by
  induction f generalizing e with
  | zero =>
    have : e = 0 := by simpa using he
    subst this; simp [powX, eval]
  | succ f ih =>
    unfold powX
    by_cases h0 : e = 0
    · subst h0; simp [eval]
    · simp only [h0, if_false]
      have hh := ih (e / 2) (by rw [pow_succ] at he; omega)
      have hdecomp : e = 2 * (e / 2) + e % 2 := (Nat.div_add_mod e 2).symm
      by_cases hodd : e % 2 = 1
      · simp only [hodd, if_true]
        rw [mulT_eval a b _ _ r hr, mulT_eval a b _ _ r hr, hh]
        conv_rhs => rw [hdecomp, hodd, pow_succ, pow_mul, sq, mul_pow]
        simp [eval]
      · have hev : e % 2 = 0 := by omega
        simp only [hodd, if_false]
        rw [mulT_eval a b _ _ r hr, hh]
        conv_rhs => rw [hdecomp, hev, add_zero, pow_mul, sq, mul_pow]

/-- **certificate**: `B · (x^p − x) ≡ 1 (mod f, p)` ⇒ `f` has no root in `F_p` -/
theorem no_root (a b : ℤ) (fuel : ℕ) (hfuel : p < 2 ^ fuel) (B : T)
    (hcert : mulT p a b
      ((powX p a b fuel p).1, ((powX p a b fuel p).2.1 - 1) % (p : ℤ), (powX p a b fuel p).2.2) B = (1, 0, 0))
    (r : ZMod p) : r ^ 3 + (a : ZMod p) * r + (b : ZMod p) ≠ 0 := by
  intro hr
  have hpow := powX_eval a b r hr fuel p hfuel
  rw [ZMod.pow_card] at hpow
  have hg : eval ((powX p a b fuel p).1, ((powX p a b fuel p).2.1 - 1) % (p : ℤ), (powX p a b fuel p).2.2) r = 0 := by
    simp only [eval, ZMod.intCast_mod] at hpow ⊢
    push_cast
    linear_combination hpow
  have := mulT_eval a b ((powX p a b fuel p).1, ((powX p a b fuel p).2.1 - 1) % (p : ℤ), (powX p a b fuel p).2.2) B r hr
  rw [hcert, hg, zero_mul] at this
  simp [eval] at this

end Bec2Verif.Cubic
