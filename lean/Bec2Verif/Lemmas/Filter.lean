import Bec2Verif.Spec.Filter
/-! the importer's rendering loop writes the declarative notation of the declarative reading of the filter bytes -/
namespace Bec2Verif.Spec.Filter
open Bec2Verif Bec2Verif.Bf2

theorem renderGroup_eq (g : List Lit) :
    renderGroup g = (if (g.map renderLit).length = 1 then joinWith [] (g.map renderLit)
      else ['('] ++ joinWith " | ".toList (g.map renderLit) ++ [')']) := by
  simp [renderGroup]

/-- strong induction over the length of the remaining bytes: two bytes per step -/
theorem pfid2Loop_eq : ∀ (n : Nat) (r : Bytes), r.length ≤ n → ∀ (G : List Text.Str) (cur : List Lit),
    pfid2Loop r G (cur.map renderLit) = G ++ (groups (entries r) cur).map renderGroup := by
  intro n
  induction n using Nat.strongRecOn with
  | _ n ih =>
    intro r hr G cur
    match r, hr with
    | [], _ => simp [pfid2Loop, entries, groups]
    | [_], _ => simp [pfid2Loop, entries, groups]
    | hi :: lo :: t, hr =>
      simp only [List.length_cons] at hr
      have ht := ih (n - 2) (by omega) t (by omega)
      unfold pfid2Loop entries
      simp only
      generalize hi.toNat * 256 + lo.toNat = e
      have hlit : (cur.map renderLit) ++ [entryName e] = (cur ++ [Lit.mk (e % 0x4000) (e / 0x4000 % 2 = 1)]).map renderLit := by
        simp only [List.map_append, List.map_cons, List.map_nil, renderLit, entryName]
        congr 2
        cases hwcName (e % 0x4000) <;> by_cases hneg : e / 0x4000 % 2 = 1 <;> simp [hneg]
      rw [hlit]
      by_cases hc : e / 0x8000 % 2 = 0
      · have hcf : (decide (e / 0x8000 % 2 = 1)) = false := by simp; omega
        rw [if_pos hc, hcf]
        simp only [groups]
        have := ht (G ++ [renderGroup (cur ++ [Lit.mk (e % 0x4000) (e / 0x4000 % 2 = 1)])]) []
        simp only [List.map_nil] at this
        rw [renderGroup_eq] at this
        rw [this]
        simp [renderGroup_eq]
      · have hct : (decide (e / 0x8000 % 2 = 1)) = true := by simp; omega
        rw [if_neg hc, hct]
        simp only [groups]
        exact ht G _

/-- **the summary comment's filter text is the notation of what the filter bytes mean** -/
theorem pfid2FilterToStr_render (a n : UInt8) (r : Bytes) (ha : a = 1) (hn : 2 + n.toNat * 2 = (a :: n :: r).length) :
    pfid2FilterToStr (a :: n :: r) = .ok (render (groups (entries r) [])) := by
  unfold pfid2FilterToStr
  have h1 : (a != 1) = false := by simp [ha]
  have h2 : (2 + n.toNat * 2 != (a :: n :: r).length) = false := by simp [hn]
  simp only [h1, h2, Bool.or_self, Bool.false_eq_true, if_false]
  have := pfid2Loop_eq r.length r (Nat.le_refl _) [] []
  simp only [List.map_nil, List.nil_append] at this
  rw [this]
  rfl

end Bec2Verif.Spec.Filter
