import Bec2Verif.Lemmas.EcCast
/-!
Scalar multiplication of python-ecdsa's `PointJacobi` (`__mul__` through the non-adjacent form) computes `k • P`
in Mathlib's group of the curve.
-/
set_option linter.style.nameCheck false
namespace Bec2Verif.EcC
open Bec2Verif Ec EcF WeierstrassCurve

/-! ### the non-adjacent form -/

/-- value of a little-endian signed-digit list -/
def evalLE : List ℤ → ℤ
  | [] => 0
  | d :: ds => d + 2 * evalLE ds

theorem naf_eval (fuel f : ℕ) (m : ℤ) (hm : m.natAbs ≤ 2 ^ f) (hf : f < fuel) : evalLE (naf fuel m) = m := by
  induction fuel generalizing f m with
  | zero => omega
  | succ fuel ih =>
    unfold naf
    by_cases h0 : m = 0
    · simp [h0, evalLE]
    · have : (m == 0) = false := by simpa using h0
      simp only [this, Bool.false_eq_true, if_false]
      -- the next value has at most half the size
      have key : ∀ nd : ℤ, (nd = -1 ∨ nd = 0 ∨ nd = 1) → (m - nd) % 2 = 0 → (m % 2 ≠ 0 → (m - nd) % 4 = 0) →
          evalLE (naf fuel (Int.fdiv (m - nd) 2)) = Int.fdiv (m - nd) 2 := by
        intro nd hnd hev h4
        have hdiv : Int.fdiv (m - nd) 2 = (m - nd) / 2 := Int.fdiv_eq_ediv_of_nonneg _ (by omega)
        rw [hdiv]
        cases f with
        | zero =>
          -- |m| ≤ 1 and m ≠ 0: the next value is 0
          have : (m - nd) / 2 = 0 := by
            simp only [pow_zero] at hm
            omega
          rw [this]
          cases fuel with
          | zero => rfl
          | succ n => simp [naf, evalLE]
        | succ f' =>
          apply ih f'
          · have h2 : (2:ℕ) ^ (f' + 1) = 2 * 2 ^ f' := by ring
            rw [h2] at hm
            omega
          · omega
      by_cases hodd : m % 2 = 0
      · have : (m % 2 != 0) = false := by simp [hodd]
        simp only [this, Bool.false_eq_true, if_false, evalLE]
        have := key 0 (Or.inr (Or.inl rfl)) (by simpa using hodd) (fun h => absurd hodd h)
        simp only [sub_zero] at this
        rw [this]
        have hdiv : Int.fdiv m 2 = m / 2 := Int.fdiv_eq_ediv_of_nonneg _ (by omega)
        rw [hdiv]; omega
      · have : (m % 2 != 0) = true := by simp [hodd]
        simp only [this, if_true, evalLE]
        by_cases h4 : m % 4 ≥ 2
        · simp only [h4, if_true]
          have hnd : m % 4 - 4 = -1 := by omega
          rw [hnd]
          have := key (-1) (Or.inl rfl) (by omega) (fun _ => by omega)
          rw [this]
          have hdiv : Int.fdiv (m - -1) 2 = (m - -1) / 2 := Int.fdiv_eq_ediv_of_nonneg _ (by omega)
          rw [hdiv]; omega
        · simp only [h4, if_false]
          have hnd : m % 4 = 1 := by omega
          rw [hnd]
          have := key 1 (Or.inr (Or.inr rfl)) (by omega) (fun _ => by omega)
          rw [this]
          have hdiv : Int.fdiv (m - 1) 2 = (m - 1) / 2 := Int.fdiv_eq_ediv_of_nonneg _ (by omega)
          rw [hdiv]; omega

theorem nafOf_eval (m : ℤ) : evalLE (nafOf m) = m := by
  unfold nafOf
  apply naf_eval _ (m.natAbs.log2 + 1)
  · exact le_of_lt (Nat.lt_log2_self)
  · omega

/-! ### modular inverse (extended Euclid) -/

variable {p : ℕ} [hp : Fact p.Prime]

/-- invariant of the loop: both remainders are multiples of the original value, with the tracked cofactors -/
theorem egcd_inv (fuel : ℕ) (v r0 r1 s0 s1 : ℤ)
    (h0 : (r0 : ZMod p) = (s0 : ZMod p) * (v : ZMod p)) (h1 : (r1 : ZMod p) = (s1 : ZMod p) * (v : ZMod p)) :
    (((egcd fuel r0 r1 s0 s1).1 : ℤ) : ZMod p) = (((egcd fuel r0 r1 s0 s1).2 : ℤ) : ZMod p) * (v : ZMod p) := by
  induction fuel generalizing r0 r1 s0 s1 with
  | zero => simpa [egcd] using h0
  | succ f ih =>
    unfold egcd
    split
    · simpa using h0
    · apply ih
      · exact h1
      · push_cast
        rw [h0, h1]; ring

/-- whenever `inverse_mod` returns a value for a non-zero residue, it is the inverse -/
theorem inverseMod_sound (v zi : ℤ) (hv : (v : ZMod p) ≠ 0) (h : inverseMod v p = some zi) :
    (zi : ZMod p) * (v : ZMod p) = 1 := by
  unfold inverseMod at h
  have hv0 : (v == 0) = false := by
    rw [Bool.eq_false_iff]; intro h'; exact hv (by simp [beq_iff_eq.mp h'])
  simp only [hv0, Bool.false_eq_true, if_false] at h
  have hinv := egcd_inv (p := p) (2 * (p : ℤ).toNat.log2 + 4) (v % (p : ℤ)) (v % (p : ℤ)) (p : ℤ) 1 0
    (by simp) (by simp)
  split at h
  · rename_i hg
    injection h with h
    subst h
    have hg1 := beq_iff_eq.mp hg
    rw [hg1, cast_emod] at hinv
    rw [cast_emod]
    simpa using hinv.symm
  · cases h

/-! ### `scale()` -/

variable {a b : ℤ}

/-- `scale()` keeps the represented group element and makes `Z = 1` -/
theorem scale_rep (c : Curve) (hcp : c.p = p) {P : (W (a : ZMod p) (b : ZMod p)).Point}
    {X Y Z : ℤ} (h : TRep p a b P (X, Y, Z)) {t : Triple} (hs : scale c X Y Z = some t) :
    TRep p a b P t ∧ t.2.2 = 1 := by
  unfold scale at hs
  by_cases hz1 : Z = 1
  · subst hz1
    simp only [beq_self_eq_true, if_true, Option.some.injEq] at hs
    subst hs
    exact ⟨h, rfl⟩
  · have : (Z == 1) = false := by simpa using hz1
    simp only [this, Bool.false_eq_true, if_false, hcp] at hs
    split at hs
    · cases hs
    · rename_i zi hzi
      simp only [Option.some.injEq] at hs
      subst hs
      refine ⟨⟨wfz_mod _, wfz_one, ?_⟩, rfl⟩
      obtain ⟨hY, hZ, hr⟩ := h
      simp only at hY hZ
      cases P with
      | zero =>
        left
        simp only [cst, cast_emod, Int.cast_mul]
        rcases hr with h | h
        · simp only [cst] at h; rw [h]; ring
        · -- Z = 0 as an integer: inverse_mod(0) = 0
          simp only [cst] at h
          have hZ0 : Z = 0 := hZ h
          subst hZ0
          have : zi = 0 := by
            simp [inverseMod] at hzi; exact hzi.symm
          subst this
          simp
      | some x y hns =>
        obtain ⟨hz, hX, hY'⟩ := hr
        simp only [cst] at hz hX hY'
        have hinv := inverseMod_sound (p := p) Z zi hz hzi
        refine ⟨by simp [cst], ?_, ?_⟩
        · simp only [cst, cast_emod, Int.cast_mul, Int.cast_one, one_pow, mul_one]
          rw [hX]
          have : (zi : ZMod p) = (Z : ZMod p)⁻¹ := by
            field_simp; exact hinv
          rw [this]; field_simp
        · simp only [cst, cast_emod, Int.cast_mul, Int.cast_one, one_pow, mul_one]
          rw [hY']
          have : (zi : ZMod p) = (Z : ZMod p)⁻¹ := by
            field_simp; exact hinv
          rw [this]; field_simp

/-! ### the double-and-add loop -/

theorem naf_digits (fuel : ℕ) (m : ℤ) : ∀ d ∈ naf fuel m, d = -1 ∨ d = 0 ∨ d = 1 := by
  induction fuel generalizing m with
  | zero => intro d hd; simp [naf] at hd
  | succ f ih =>
    intro d hd
    unfold naf at hd
    split at hd
    · simp at hd
    · split at hd
      · rename_i hodd
        have hodd' : m % 2 ≠ 0 := by simpa using hodd
        simp only [List.mem_cons] at hd
        rcases hd with hd | hd
        · subst hd
          split <;> omega
        · exact ih _ d hd
      · simp only [List.mem_cons] at hd
        rcases hd with hd | hd
        · exact Or.inr (Or.inl hd)
        · exact ih _ d hd

theorem foldl_reverse_evalLE (ds : List ℤ) : (ds.reverse).foldl (fun m d => 2 * m + d) 0 = evalLE ds := by
  induction ds with
  | nil => rfl
  | cons d ds ih =>
    simp only [List.reverse_cons, List.foldl_append, List.foldl_cons, List.foldl_nil, ih, evalLE]
    ring

theorem mulLoop_rep (hc : CurveOK p a b) (c : Curve) (hcp : c.p = p) (hca : c.a = a)
    (P : (W (a : ZMod p) (b : ZMod p)).Point) (X2 Y2 : ℤ) (hP : TRep p a b P (X2, Y2, 1))
    (ds : List ℤ) (hds : ∀ d ∈ ds, d = -1 ∨ d = 0 ∨ d = 1) (n : ℤ) (acc : Triple) (hacc : TRep p a b (n • P) acc) :
    TRep p a b ((ds.foldl (fun m d => 2 * m + d) n) • P) (mulLoop c X2 Y2 ds acc) := by
  induction ds generalizing n acc with
  | nil => simpa [mulLoop] using hacc
  | cons d ds ih =>
    obtain ⟨X3, Y3, Z3⟩ := acc
    simp only [mulLoop, List.foldl_cons, hcp, hca]
    have hd := double__rep hc _ X3 Y3 Z3 hacc
    have h2n : n • P + n • P = (2 * n) • P := by rw [two_mul, add_zsmul]
    rw [h2n] at hd
    have hnegP : TRep p a b (-P) (X2, -Y2, 1) := neg_rep (pt := .jac X2 Y2 1) hP
    apply ih (fun d' hd' => hds d' (List.mem_cons_of_mem _ hd'))
    rcases hds d (by simp) with h | h | h
    · subst h
      simp only [show ((-1 : ℤ) < 0) = True from by simp, if_true]
      have := add__rep hc _ _ _ _ _ _ _ _ hd hnegP
      have e : (2 * n) • P + -P = (2 * n + -1) • P := by rw [add_zsmul, neg_one_zsmul]
      rw [e] at this
      exact this
    · subst h
      simp only [lt_self_iff_false, if_false, add_zero]
      exact hd
    · subst h
      simp only [show ¬ ((1 : ℤ) < 0) from by omega, if_false, show ((1 : ℤ) > 0) = True from by simp, if_true]
      have := add__rep hc _ _ _ _ _ _ _ _ hd hP
      have e : (2 * n) • P + P = (2 * n + 1) • P := by rw [add_zsmul, one_zsmul]
      rw [e] at this
      exact this

/-- C17: `__mul__` (NAF path) computes the scalar multiple in the group, for every scalar (negative, zero, beyond the
order) and every representation of the point; `order`, when given, must annihilate the point -/
theorem mulNaf_rep (hc : CurveOK p a b) (c : Curve) (hcp : c.p = p) (hca : c.a = a) (order : ℤ)
    {P : (W (a : ZMod p) (b : ZMod p)).Point} {pt : Pt} (hP : PRep p a b P pt)
    (hord : order ≠ 0 → order • P = 0) (k : ℤ) {R : Pt} (h : mulNaf c order pt k = some R) :
    PRep p a b (k • P) R := by
  cases pt with
  | inf =>
    have : P = 0 := hP
    subst this
    simp only [mulNaf, Option.some.injEq] at h
    subst h
    show k • (0 : (W (a : ZMod p) (b : ZMod p)).Point) = 0
    exact zsmul_zero k
  | jac X Y Z =>
    unfold mulNaf at h
    simp only at h
    by_cases i0 : (Y == 0 || k == 0) = true
    · simp only [i0, if_true, Option.some.injEq] at h
      subst h
      show k • P = 0
      simp only [Bool.or_eq_true, beq_iff_eq] at i0
      rcases i0 with i0 | i0
      · have : (Y == 0 || Z == 0) = true := by simp [i0]
        rw [(trep_isInf hc hP).mp this, zsmul_zero]
      · rw [i0, zero_zsmul]
    · simp only [i0, Bool.false_eq_true, if_false] at h
      by_cases i1 : k = 1
      · subst i1
        simp only [beq_self_eq_true, if_true, Option.some.injEq] at h
        subst h
        rw [one_zsmul]; exact hP
      · have : (k == 1) = false := by simpa using i1
        simp only [this, Bool.false_eq_true, if_false] at h
        -- reduction modulo 2·order does not change the multiple
        have hk' : (if (order != 0) = true then k % (order * 2) else k) • P = k • P := by
          by_cases ho : order = 0
          · simp [ho]
          · have : (order != 0) = true := by simpa using ho
            simp only [this, if_true]
            have h0 : (order * 2) • P = 0 := by rw [mul_comm, mul_zsmul, hord ho, zsmul_zero]
            conv_rhs => rw [← Int.emod_add_mul_ediv k (order * 2)]
            rw [add_zsmul, mul_comm (order * 2), mul_zsmul, h0, zsmul_zero, add_zero]
        generalize (if (order != 0) = true then k % (order * 2) else k) = k' at h hk'
        split at h
        · cases h
        · rename_i X2 Y2 Z2 hsc
          simp only [Option.some.injEq] at h
          subst h
          obtain ⟨hsr, hz⟩ := scale_rep c hcp hP hsc
          simp only at hz
          subst hz
          rw [← hk']
          apply wrap_rep hc
          have := mulLoop_rep hc c hcp hca P X2 Y2 hsr (nafOf k').reverse
            (fun d hd => naf_digits _ _ d (List.mem_reverse.mp hd)) 0 (0, 0, 1) (by rw [zero_zsmul]; exact trep_inf)
          rw [foldl_reverse_evalLE, nafOf_eval] at this
          exact this

/-! ### multiplication of a generator through the precomputed table -/

/-- entry `j` of the table is the affine form of `2^(j0+j) • P` -/
def TabOK (p : ℕ) [Fact p.Prime] (a b : ℤ) (P : (W (a : ZMod p) (b : ZMod p)).Point) (j0 : ℕ) : List (ℤ × ℤ) → Prop
  | [] => True
  | e :: es => TRep p a b ((2 ^ j0 : ℤ) • P) (e.1, e.2, 1) ∧ TabOK p a b P (j0 + 1) es

theorem tabOK_append (P : (W (a : ZMod p) (b : ZMod p)).Point) (j0 : ℕ) (l : List (ℤ × ℤ)) (e : ℤ × ℤ)
    (hl : TabOK p a b P j0 l) (he : TRep p a b ((2 ^ (j0 + l.length) : ℤ) • P) (e.1, e.2, 1)) :
    TabOK p a b P j0 (l ++ [e]) := by
  induction l generalizing j0 with
  | nil => simpa [TabOK] using he
  | cons x xs ih =>
    refine ⟨hl.1, ih (j0 + 1) hl.2 ?_⟩
    have : j0 + 1 + xs.length = j0 + (x :: xs).length := by simp; omega
    rw [this]; exact he

/-- the table loop: with enough fuel it ends because the power of two has passed the bound -/
theorem precomputeLoop_spec (hc : CurveOK p a b) (c : Curve) (hcp : c.p = p) (hca : c.a = a)
    (P : (W (a : ZMod p) (b : ZMod p)).Point) (fuel : ℕ) (j : ℕ) (o : ℤ) (t : Triple) (acc : List (ℤ × ℤ))
    (ht : TRep p a b ((2 ^ j : ℤ) • P) t) (hacc : TabOK p a b P 0 acc.reverse) (hlen : acc.length = j + 1)
    (hfuel : o ≤ 2 ^ (j + fuel)) {tab : List (ℤ × ℤ)}
    (h : precomputeLoop c fuel (2 ^ j) o t acc = some tab) :
    TabOK p a b P 0 tab ∧ 0 < tab.length ∧ o ≤ 2 ^ (tab.length - 1) := by
  induction fuel generalizing j t acc with
  | zero =>
    simp only [precomputeLoop, Option.some.injEq] at h
    subst h
    refine ⟨hacc, by simp [hlen], ?_⟩
    simp only [List.length_reverse, hlen, Nat.add_sub_cancel]
    simpa using hfuel
  | succ f ih =>
    obtain ⟨X, Y, Z⟩ := t
    unfold precomputeLoop at h
    by_cases hi : (2 : ℤ) ^ j < o
    · simp only [hi, if_true] at h
      have hd := double_rep hc c hcp hca (pt := .jac X Y Z) ht
      split at h
      · cases h
      · rename_i X' Y' Z' hdbl
        rw [hdbl] at hd
        split at h
        · cases h
        · rename_i x y z hsc
          obtain ⟨hs, hz⟩ := scale_rep c hcp hd hsc
          simp only at hz
          subst hz
          have e2 : ((2 : ℤ) ^ j) • P + ((2 : ℤ) ^ j) • P = ((2 : ℤ) ^ (j + 1)) • P := by
            rw [← add_zsmul]; congr 1; ring
          rw [e2] at hs
          have h' : precomputeLoop c f (2 ^ (j + 1)) o (x, y, 1) ((x, y) :: acc) = some tab := by
            have : (2 : ℤ) ^ j * 2 = 2 ^ (j + 1) := by ring
            rw [← this]; exact h
          apply ih (j + 1) (x, y, 1) ((x, y) :: acc) hs ?_ (by simp [hlen]) ?_ h'
          · rw [List.reverse_cons]
            apply tabOK_append _ _ _ _ hacc
            simp only [List.length_reverse, hlen, zero_add]
            exact hs
          · have : j + 1 + f = j + (f + 1) := by omega
            rw [this]; exact hfuel
    · simp only [hi, if_false, Option.some.injEq] at h
      subst h
      refine ⟨hacc, by simp [hlen], ?_⟩
      simp only [List.length_reverse, hlen, Nat.add_sub_cancel]
      omega

/-- one step of the digit extraction of `_mul_precompute` -/
def kstep (k : ℤ) : ℤ :=
  if k % 2 != 0 then (if k % 4 ≥ 2 then Int.fdiv (k + 1) 2 else Int.fdiv (k - 1) 2) else Int.fdiv k 2
def kdig (k : ℤ) : ℤ := if k % 2 != 0 then (if k % 4 ≥ 2 then -1 else 1) else 0

theorem kstep_eq (k : ℤ) : k = kdig k + 2 * kstep k := by
  unfold kdig kstep
  by_cases h : k % 2 = 0
  · have : (k % 2 != 0) = false := by simp [h]
    simp only [this, Bool.false_eq_true, if_false]
    rw [Int.fdiv_eq_ediv_of_nonneg _ (by omega)]; omega
  · have : (k % 2 != 0) = true := by simp [h]
    simp only [this, if_true]
    split
    · rw [Int.fdiv_eq_ediv_of_nonneg _ (by omega)]; omega
    · rw [Int.fdiv_eq_ediv_of_nonneg _ (by omega)]; omega

theorem kstep_bound (k : ℤ) (e : ℕ) (h0 : 0 ≤ k) (h : k ≤ 2 ^ e) :
    0 ≤ kstep k ∧ kstep k ≤ 2 ^ (e - 1) ∧ (e = 0 → kstep k = 0) := by
  have hk := kstep_eq k
  have hd : kdig k = -1 ∨ kdig k = 0 ∨ kdig k = 1 := by
    unfold kdig; split
    · split <;> simp
    · simp
  have hodd : kdig k = -1 → k % 4 = 3 := by
    unfold kdig; intro h; split at h
    · split at h
      · rename_i h1 h2; have : k % 2 ≠ 0 := by simpa using h1
        omega
      · omega
    · omega
  cases e with
  | zero =>
    simp only [pow_zero] at h ⊢
    have : kstep k = 0 := by
      rcases hd with h1 | h1 | h1
      · have := hodd h1; omega
      · omega
      · omega
    simp [this]
  | succ e' =>
    have h2 : (2 : ℤ) ^ (e' + 1) = 2 * 2 ^ e' := by ring
    rw [h2] at h
    simp only [Nat.add_sub_cancel]
    refine ⟨by omega, by omega, by omega⟩

theorem mulPrecompLoop_rep (hc : CurveOK p a b) (c : Curve) (hcp : c.p = p) (hca : c.a = a)
    (P : (W (a : ZMod p) (b : ZMod p)).Point) (tab : List (ℤ × ℤ)) (j0 : ℕ) (htab : TabOK p a b P j0 tab)
    (k m : ℤ) (acc : Triple) (hacc : TRep p a b (m • P) acc) (e : ℕ) (hk0 : 0 ≤ k) (hke : k ≤ 2 ^ e) (hlen : e < tab.length) :
    TRep p a b ((m + k * 2 ^ j0) • P) (mulPrecompLoop c tab k acc) := by
  induction tab generalizing j0 k m acc e with
  | nil => simp at hlen
  | cons en es ih =>
    obtain ⟨X2, Y2⟩ := en
    obtain ⟨X3, Y3, Z3⟩ := acc
    obtain ⟨hen, hes⟩ := htab
    have hb := kstep_bound k e hk0 hke
    have hkeq := kstep_eq k
    -- what remains after this entry
    have hrest : ∀ (m' : ℤ) (acc' : Triple), TRep p a b (m' • P) acc' →
        m' + kstep k * 2 ^ (j0 + 1) = m + k * 2 ^ j0 →
        TRep p a b ((m + k * 2 ^ j0) • P) (mulPrecompLoop c es (kstep k) acc') := by
      intro m' acc' hacc' hsum
      rw [← hsum]
      cases e with
      | zero =>
        have hz := hb.2.2 rfl
        rw [hz]
        -- the scalar is used up: the remaining entries leave the accumulator alone
        have : ∀ (l : List (ℤ × ℤ)) (t : Triple), mulPrecompLoop c l 0 t = t := by
          intro l
          induction l with
          | nil => intro t; obtain ⟨_, _, _⟩ := t; rfl
          | cons x xs ihl =>
            intro t; obtain ⟨_, _, _⟩ := t; obtain ⟨_, _⟩ := x
            simp [mulPrecompLoop, ihl]
        rw [this]; simpa using hacc'
      | succ e' =>
        exact ih (j0 + 1) hes (kstep k) m' acc' hacc' e' hb.1 (by simpa using hb.2.1) (by simp at hlen; omega)
    unfold mulPrecompLoop
    simp only [hcp, hca]
    by_cases hodd : k % 2 = 0
    · have c1 : (k % 2 != 0) = false := by simp [hodd]
      simp only [c1, Bool.false_eq_true, if_false]
      have hks : kstep k = Int.fdiv k 2 := by simp [kstep, c1]
      rw [← hks]
      apply hrest m _ hacc
      have : kdig k = 0 := by simp [kdig, c1]
      rw [this] at hkeq
      have h2 : (2 : ℤ) ^ (j0 + 1) = 2 * 2 ^ j0 := by ring
      rw [h2]; linear_combination (-(2 : ℤ) ^ j0) * hkeq
    · have c1 : (k % 2 != 0) = true := by simp [hodd]
      simp only [c1, if_true]
      by_cases h4 : k % 4 ≥ 2
      · simp only [h4, if_true]
        have hks : kstep k = Int.fdiv (k + 1) 2 := by simp [kstep, c1, h4]
        rw [← hks]
        have hneg : TRep p a b (-((2 ^ j0 : ℤ) • P)) (X2, -Y2, 1) := neg_rep (pt := .jac X2 Y2 1) hen
        have hsum := add__rep hc _ _ _ _ _ _ _ _ hacc hneg
        have e1 : m • P + -((2 ^ j0 : ℤ) • P) = (m - 2 ^ j0) • P := by rw [sub_zsmul]
        rw [e1] at hsum
        apply hrest _ _ hsum
        have : kdig k = -1 := by simp [kdig, c1, h4]
        rw [this] at hkeq
        have h2 : (2 : ℤ) ^ (j0 + 1) = 2 * 2 ^ j0 := by ring
        rw [h2]; linear_combination (-(2 : ℤ) ^ j0) * hkeq
      · simp only [h4, if_false]
        have hks : kstep k = Int.fdiv (k - 1) 2 := by simp [kstep, c1, h4]
        rw [← hks]
        have hsum := add__rep hc _ _ _ _ _ _ _ _ hacc hen
        have e1 : m • P + (2 ^ j0 : ℤ) • P = (m + 2 ^ j0) • P := by rw [add_zsmul]
        rw [e1] at hsum
        apply hrest _ _ hsum
        have : kdig k = 1 := by simp [kdig, c1, h4]
        rw [this] at hkeq
        have h2 : (2 : ℤ) ^ (j0 + 1) = 2 * 2 ^ j0 := by ring
        rw [h2]; linear_combination (-(2 : ℤ) ^ j0) * hkeq

/-- the first table entry: affine form of the point itself (an infinity written with `Z = 0` gives `(0, 0)`) -/
theorem affineXY_entry (c : Curve) (hcp : c.p = p) {P : (W (a : ZMod p) (b : ZMod p)).Point}
    {X Y Z : ℤ} (h : TRep p a b P (X, Y, Z)) (hY : Y ≠ 0) {u v : ℤ} (hxy : affineXY c X Y Z = some (u, v)) :
    TRep p a b P (u, v, 1) := by
  obtain ⟨hwy, hwz, hr⟩ := h
  simp only at hwy hwz
  unfold affineXY at hxy
  by_cases hz1 : Z = 1
  · subst hz1
    simp only [beq_self_eq_true, if_true, Option.some.injEq, Prod.mk.injEq] at hxy
    obtain ⟨rfl, rfl⟩ := hxy
    exact ⟨hwy, hwz, hr⟩
  · have : (Z == 1) = false := by simpa using hz1
    simp only [this, Bool.false_eq_true, if_false, hcp] at hxy
    split at hxy
    · cases hxy
    · rename_i zi hzi
      simp only [Option.some.injEq, Prod.mk.injEq] at hxy
      obtain ⟨rfl, rfl⟩ := hxy
      refine ⟨wfz_mod _, wfz_one, ?_⟩
      cases P with
      | zero =>
        left
        have hyF : (Y : ZMod p) ≠ 0 := fun h => hY (hwy h)
        have hzF : (Z : ZMod p) = 0 := by
          rcases hr with h | h
          · exact absurd (by simpa [cst] using h) hyF
          · simpa [cst] using h
        have hZ0 : Z = 0 := hwz hzF
        subst hZ0
        have : zi = 0 := by simp [inverseMod] at hzi; exact hzi.symm
        subst this
        simp [cst]
      | some x y hns =>
        obtain ⟨hz, hX, hY'⟩ := hr
        simp only [cst] at hz hX hY'
        have hinv := inverseMod_sound (p := p) Z zi hz hzi
        have hzi' : (zi : ZMod p) = (Z : ZMod p)⁻¹ := by field_simp; exact hinv
        refine ⟨by simp [cst], ?_, ?_⟩
        · simp only [cst, cast_emod, Int.cast_mul, Int.cast_pow, Int.cast_one, one_pow, mul_one, hX, hzi']; field_simp
        · simp only [cst, cast_emod, Int.cast_mul, Int.cast_pow, Int.cast_one, one_pow, mul_one, hY', hzi']; field_simp

/-- C17: `__mul__` of a generator (precomputed table of `2^i · G`) computes the scalar multiple in the group -/
theorem mulGen_rep (hc : CurveOK p a b) (c : Curve) (hcp : c.p = p) (hca : c.a = a) (order : ℤ) (ho : 0 < order)
    {P : (W (a : ZMod p) (b : ZMod p)).Point} {pt : Pt} (hP : PRep p a b P pt)
    (hord : order • P = 0) (k : ℤ) {R : Pt} (h : mulGen c order pt k = some R) :
    PRep p a b (k • P) R := by
  cases pt with
  | inf =>
    have : P = 0 := hP
    subst this
    simp only [mulGen, Option.some.injEq] at h
    subst h
    show k • (0 : (W (a : ZMod p) (b : ZMod p)).Point) = 0
    exact zsmul_zero k
  | jac X Y Z =>
    unfold mulGen at h
    simp only at h
    by_cases i0 : (Y == 0 || k == 0) = true
    · simp only [i0, if_true, Option.some.injEq] at h
      subst h
      show k • P = 0
      simp only [Bool.or_eq_true, beq_iff_eq] at i0
      rcases i0 with i0 | i0
      · have : (Y == 0 || Z == 0) = true := by simp [i0]
        rw [(trep_isInf hc hP).mp this, zsmul_zero]
      · rw [i0, zero_zsmul]
    · simp only [i0, Bool.false_eq_true, if_false] at h
      have hY0 : Y ≠ 0 := by
        intro hy; apply i0; simp [hy]
      by_cases i1 : k = 1
      · subst i1
        simp only [beq_self_eq_true, if_true, Option.some.injEq] at h
        subst h
        rw [one_zsmul]; exact hP
      · have : (k == 1) = false := by simpa using i1
        have hone : (order != 0) = true := by simp; omega
        simp only [this, Bool.false_eq_true, if_false, hone, if_true] at h
        have h0 : (order * 2) • P = 0 := by rw [mul_comm, mul_zsmul, hord, zsmul_zero]
        have hk' : (k % (order * 2)) • P = k • P := by
          conv_rhs => rw [← Int.emod_add_mul_ediv k (order * 2)]
          rw [add_zsmul, mul_comm (order * 2), mul_zsmul, h0, zsmul_zero, add_zero]
        have hk0 : 0 ≤ k % (order * 2) := Int.emod_nonneg _ (by omega)
        have hk1 : k % (order * 2) < order * 2 := Int.emod_lt_of_pos _ (by omega)
        generalize k % (order * 2) = k' at h hk' hk0 hk1
        split at h
        · cases h
        · rename_i tab htab
          simp only [Option.some.injEq] at h
          subst h
          unfold precompute at htab
          split at htab
          · cases htab
          · rename_i x y hxy
            have hent := affineXY_entry c hcp hP hY0 hxy
            have hspec := precomputeLoop_spec hc c hcp hca P ((order * 4).toNat.log2 + 3) 0 (order * 4) (X, Y, Z) [(x, y)]
              (by rw [pow_zero, one_zsmul]; exact hP) (by simpa [TabOK] using hent) rfl
              (by
                have h1 : ((order * 4).toNat : ℤ) = order * 4 := Int.toNat_of_nonneg (by omega)
                have h2 : (order * 4).toNat < 2 ^ ((order * 4).toNat.log2 + 1) := Nat.lt_log2_self
                calc order * 4 = ((order * 4).toNat : ℤ) := h1.symm
                  _ ≤ ((2 ^ ((order * 4).toNat.log2 + 1) : ℕ) : ℤ) := by exact_mod_cast h2.le
                  _ ≤ 2 ^ (0 + ((order * 4).toNat.log2 + 3)) := by
                    push_cast
                    exact pow_le_pow_right₀ (by norm_num) (by omega))
              (by simpa using htab)
            obtain ⟨htabok, hpos, hbig⟩ := hspec
            rw [← hk']
            apply wrap_rep hc
            -- the table is long enough for the reduced scalar
            have hL : 3 ≤ tab.length := by
              by_contra hlt
              have : tab.length - 1 ≤ 1 := by omega
              have : (2:ℤ) ^ (tab.length - 1) ≤ 2 ^ 1 := pow_le_pow_right₀ (by norm_num) this
              omega
            have hke : k' ≤ 2 ^ (tab.length - 2) := by
              have h2 : (2:ℤ) ^ (tab.length - 1) = 2 * 2 ^ (tab.length - 2) := by
                have : tab.length - 1 = (tab.length - 2) + 1 := by omega
                rw [this]; ring
              rw [h2] at hbig
              omega
            have := mulPrecompLoop_rep hc c hcp hca P tab 0 htabok k' 0 (0, 0, 1)
              (by rw [zero_zsmul]; exact trep_inf) (tab.length - 2) hk0 hke (by omega)
            simpa using this

/-! ### affine coordinates and the ECDH secret -/

theorem affineXY_spec (c : Curve) (hcp : c.p = p) {x y : ZMod p} {hns : (W (a : ZMod p) (b : ZMod p)).Nonsingular x y}
    {X Y Z : ℤ} (h : TRep p a b (.some x y hns) (X, Y, Z)) {u v : ℤ} (hxy : affineXY c X Y Z = some (u, v)) :
    (u : ZMod p) = x ∧ (v : ZMod p) = y := by
  obtain ⟨_, _, hz, hX, hY⟩ := h
  simp only [cst] at hz hX hY
  unfold affineXY at hxy
  by_cases hz1 : Z = 1
  · subst hz1
    simp only [beq_self_eq_true, if_true, Option.some.injEq, Prod.mk.injEq] at hxy
    obtain ⟨rfl, rfl⟩ := hxy
    simp only [Int.cast_one, one_pow, mul_one] at hX hY
    exact ⟨hX, hY⟩
  · have : (Z == 1) = false := by simpa using hz1
    simp only [this, Bool.false_eq_true, if_false, hcp] at hxy
    split at hxy
    · cases hxy
    · rename_i zi hzi
      simp only [Option.some.injEq, Prod.mk.injEq] at hxy
      obtain ⟨rfl, rfl⟩ := hxy
      have hinv := inverseMod_sound (p := p) Z zi hz hzi
      have hzi' : (zi : ZMod p) = (Z : ZMod p)⁻¹ := by field_simp; exact hinv
      constructor
      · simp only [cast_emod, Int.cast_mul, Int.cast_pow, hX, hzi']; field_simp
      · simp only [cast_emod, Int.cast_mul, Int.cast_pow, hY, hzi']; field_simp

/-- C17: the ECDH secret is the affine x-coordinate of `priv • Q` in the group of the curve -/
theorem sharedSecret_spec (hc : CurveOK p a b) (d : Domain) (hcp : d.curve.p = p) (hca : d.curve.a = a)
    {Q : (W (a : ZMod p) (b : ZMod p)).Point} {x y : ℤ} (hQ : TRep p a b Q (x, y, 1)) (priv s : ℤ)
    (h : sharedSecret d priv x y = .ok s) :
    ∃ x' y', ∃ hns : (W (a : ZMod p) (b : ZMod p)).Nonsingular x' y', priv • Q = .some x' y' hns ∧ (s : ZMod p) = x' := by
  unfold sharedSecret at h
  split at h
  · cases h
  · rename_i R hR
    have hrep := mulNaf_rep hc d.curve hcp hca 0 (pt := .jac x y 1) hQ (fun h => absurd rfl h) priv hR
    split at h
    · cases h
    · rename_i hinf
      have hne : priv • Q ≠ 0 := fun h0 => hinf ((isInf_rep hc hrep).mpr h0)
      cases hpq : priv • Q with
      | zero => exact absurd hpq hne
      | some x' y' hns =>
        refine ⟨x', y', hns, rfl, ?_⟩
        rw [hpq] at hrep
        cases R with
        | inf => exact absurd hrep (Affine.Point.some_ne_zero _)
        | jac X Y Z =>
          have hni : (Y == 0 || Z == 0) = false := by
            rw [Bool.eq_false_iff]; exact hinf
          simp only [Ec.toAffine, hni, Bool.false_eq_true, if_false] at h
          cases hxy : affineXY d.curve X Y Z with
          | none => simp [hxy] at h
          | some uv =>
            obtain ⟨u, v⟩ := uv
            simp only [hxy, Option.map_some, Except.ok.injEq] at h
            subst h
            exact (affineXY_spec d.curve hcp hrep hxy).1

/-- both parties of a Diffie-Hellman exchange obtain the same field element: the x-coordinate of `(da·db) • G` -/
theorem ecdh_symmetric (hc : CurveOK p a b) (d : Domain) (hcp : d.curve.p = p) (hca : d.curve.a = a)
    (G : (W (a : ZMod p) (b : ZMod p)).Point) (da db : ℤ) {xA yA xB yB : ℤ}
    (hA : TRep p a b (da • G) (xA, yA, 1)) (hB : TRep p a b (db • G) (xB, yB, 1)) {s1 s2 : ℤ}
    (h1 : sharedSecret d da xB yB = .ok s1) (h2 : sharedSecret d db xA yA = .ok s2) :
    (s1 : ZMod p) = (s2 : ZMod p) := by
  obtain ⟨x1, y1, hn1, e1, r1⟩ := sharedSecret_spec hc d hcp hca hB da s1 h1
  obtain ⟨x2, y2, hn2, e2, r2⟩ := sharedSecret_spec hc d hcp hca hA db s2 h2
  have : da • db • G = db • da • G := smul_comm da db G
  rw [e1, e2] at this
  injection this with hx _
  rw [r1, r2, hx]

end Bec2Verif.EcC
