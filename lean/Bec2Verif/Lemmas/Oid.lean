import Bec2Verif.Lemmas.Der
/-!
OBJECT IDENTIFIER: `remove_object ∘ encode_oid = id` for every OID the encoder is defined on (first arc 0 or 1 with
second arc < 40, or first arc 2), followed by arbitrary data.
-/
set_option linter.unusedVariables false
namespace Bec2Verif.Der
open Bec2Verif

theorem ofNat_toNat_lt (d : Nat) (h : d < 256) : (UInt8.ofNat d).toNat = d := by
  simp [UInt8.toNat_ofNat']; omega

/-- reading continuation digits `hi` and a final digit `lo` -/
theorem readNumberLoop_digits (hi : List Nat) (lo : Nat) (rest : Bytes) (number llen fuel : Nat)
    (hhi : ∀ d ∈ hi, 128 ≤ d ∧ d < 256) (hlo : lo < 128) (hf : hi.length < fuel) :
    readNumberLoop fuel ((hi ++ [lo]).map UInt8.ofNat ++ rest) number llen =
      .ok (number * 128 ^ (hi.length + 1) + (val128 hi * 128 + lo), llen + hi.length + 1) := by
  induction hi generalizing number llen fuel with
  | nil =>
    cases fuel with
    | zero => omega
    | succ f =>
      simp only [List.nil_append, List.map_cons, List.map_nil, List.cons_append, readNumberLoop,
        ofNat_toNat_lt lo (by omega), List.length_nil]
      have : lo % 128 = lo := by omega
      simp [this, hlo, val128]
  | cons d ds ih =>
    cases fuel with
    | zero => omega
    | succ f =>
      have hd := hhi d (by simp)
      simp only [List.cons_append, List.map_cons, readNumberLoop, ofNat_toNat_lt d hd.2]
      have hnot : ¬ d < 0x80 := by omega
      simp only [hnot, if_false]
      rw [ih (number * 128 + d % 128) (llen + 1) f (fun x hx => hhi x (by simp [hx])) (by simpa using hf)]
      congr 1
      have hv : val128 (d :: ds) = (d % 128) * 128 ^ ds.length + val128 ds := by
        have : d :: ds = [d] ++ ds := rfl
        rw [this, val128_append]; simp [val128]
      rw [hv]
      simp only [List.length_cons, Prod.mk.injEq]
      refine ⟨?_, by omega⟩
      rw [Nat.pow_succ (n := ds.length + 1), Nat.pow_succ (n := ds.length)]
      ring_nf
      omega

end Bec2Verif.Der
