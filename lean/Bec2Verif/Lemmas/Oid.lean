import Bec2Verif.Lemmas.Der
import Mathlib.Tactic.Ring
import Mathlib.Tactic.Linarith
/-!
OBJECT IDENTIFIER: `remove_object ∘ encode_oid = id` for every OID the encoder is defined on (first arc 0 or 1 with
second arc < 40, or first arc 2), followed by arbitrary data.
-/
set_option linter.unusedVariables false
namespace Bec2Verif.Der
open Bec2Verif

theorem ofNat_toNat_lt (d : Nat) (h : d < 256) : (UInt8.ofNat d).toNat = d := by
  simp [UInt8.toNat_ofNat']; omega

/-- reading continuation digits `hi` and a final digit `lo` -/
theorem readNumberLoop_digits (hi : List Nat) (lo : Nat) (rest : Bytes) (number llen fuel : Nat)
    (hhi : ∀ d ∈ hi, 128 ≤ d ∧ d < 256) (hlo : lo < 128) (hf : hi.length < fuel) :
    readNumberLoop fuel ((hi ++ [lo]).map UInt8.ofNat ++ rest) number llen =
      .ok (number * 128 ^ (hi.length + 1) + (val128 hi * 128 + lo), llen + hi.length + 1) := by
  induction hi generalizing number llen fuel with
  | nil =>
    cases fuel with
    | zero => omega
    | succ f =>
      simp only [List.nil_append, List.map_cons, List.map_nil, List.cons_append, readNumberLoop,
        ofNat_toNat_lt lo (by omega), List.length_nil]
      have : lo % 128 = lo := by omega
      simp [this, hlo, val128]
  | cons d ds ih =>
    cases fuel with
    | zero => omega
    | succ f =>
      have hd := hhi d (by simp)
      simp only [List.cons_append, List.map_cons, readNumberLoop, ofNat_toNat_lt d hd.2]
      have hnot : ¬ d < 0x80 := by omega
      simp only [hnot, if_false]
      rw [ih (number * 128 + d % 128) (llen + 1) f (fun x hx => hhi x (by simp [hx])) (by simpa using hf)]
      congr 1
      have hv : val128 (d :: ds) = (d % 128) * 128 ^ ds.length + val128 ds := by
        have : d :: ds = [d] ++ ds := rfl
        rw [this, val128_append]; simp [val128]
      rw [hv]
      simp only [List.length_cons, Prod.mk.injEq]
      refine ⟨?_, by omega⟩
      ring

theorem lt_pow128 (n : Nat) : n < 128 ^ (n + 1) := by
  have h1 : n < 2 ^ n := Nat.lt_two_pow_self
  have h2 : 2 ^ n ≤ 128 ^ (n + 1) := by
    calc 2 ^ n ≤ 128 ^ n := Nat.pow_le_pow_left (by omega) n
      _ ≤ 128 ^ (n + 1) := Nat.pow_le_pow_right (by omega) (by omega)
  omega

/-- the shape of `encode_number(n)`: continuation digits, then one final digit below 128; value `n`; never starts with 0x80 -/
theorem encodeNumber_shape (n : Nat) : ∃ hi lo, encodeNumber n = (hi ++ [lo]).map UInt8.ofNat ∧
    (∀ d ∈ hi, 128 ≤ d ∧ d < 256) ∧ lo < 128 ∧ val128 hi * 128 + lo = n ∧ hi.head? ≠ some 128 := by
  unfold encodeNumber
  by_cases hn : n = 0
  · subst hn
    refine ⟨[], 0, by decide, by simp, by omega, by simp [val128], by simp⟩
  · obtain ⟨hv, hall, hhead, hne, _⟩ := b128Aux_spec (n + 1) n [] (lt_pow128 n) (by simp)
    have hpos : 0 < n := by omega
    generalize b128Aux (n + 1) n [] = ds at hv hall hhead hne
    have hne' := hne hpos
    have hemp : ds.isEmpty = false := by cases ds with | nil => exact absurd rfl hne' | cons _ _ => rfl
    simp only [hemp, Bool.false_eq_true, if_false]
    obtain ⟨hi, last, rfl⟩ : ∃ hi last, ds = hi ++ [last] := by
      rcases List.eq_nil_or_concat ds with h | ⟨hi, last, h⟩
      · exact absurd h hne'
      · exact ⟨hi, last, by simpa using h⟩
    refine ⟨hi, last % 128, ?_, fun d hd => hall d (by simp [hd]), Nat.mod_lt _ (by omega), ?_, ?_⟩
    · simp
    · simp only [List.length_nil, pow_zero, mul_one, val128, List.foldl_nil, add_zero] at hv
      have := val128_append hi [last]
      simp only [List.length_cons, List.length_nil, val128] at this hv
      simp only [List.foldl_cons, List.foldl_nil, zero_mul, zero_add] at this
      rw [← hv, this]
      simp [val128]
    · intro h
      have := hhead hpos
      cases hi with
      | nil => simp at h
      | cons x xs =>
        simp only [List.head?_cons, Option.some.injEq] at h
        simp only [List.cons_append, List.head?_cons, Option.getD_some] at this
        exact this h

theorem readNumber_encodeNumber (n : Nat) (rest : Bytes) :
    readNumber (encodeNumber n ++ rest) = .ok (n, (encodeNumber n).length) := by
  obtain ⟨hi, lo, henc, hhi, hlo, hval, hhead⟩ := encodeNumber_shape n
  rw [henc]
  have hfirst : ∃ b0 tl, (hi ++ [lo]).map UInt8.ofNat ++ rest = b0 :: tl ∧ b0.toNat ≠ 0x80 := by
    cases hi with
    | nil =>
      refine ⟨UInt8.ofNat lo, rest, by simp, ?_⟩
      rw [ofNat_toNat_lt lo (by omega)]; omega
    | cons x xs =>
      refine ⟨UInt8.ofNat x, (xs ++ [lo]).map UInt8.ofNat ++ rest, by simp, ?_⟩
      rw [ofNat_toNat_lt x (hhi x (by simp)).2]
      intro h
      exact hhead (by simp [h])
  obtain ⟨b0, tl, hcons, hb0⟩ := hfirst
  unfold readNumber
  rw [hcons]
  simp only [hb0, if_false]
  rw [← hcons, readNumberLoop_digits hi lo rest 0 0 _ hhi hlo (by simp; omega)]
  simp only [zero_mul, zero_add, List.length_map, List.length_append, List.length_cons, List.length_nil, hval]

theorem encodeNumber_ne_nil (n : Nat) : encodeNumber n ≠ [] := by
  obtain ⟨hi, lo, henc, _⟩ := encodeNumber_shape n
  rw [henc]; simp

/-- the sub-identifiers of an OID body are read back one by one -/
theorem readNumbers_encode (ns : List Nat) (acc : List Nat) (fuel : Nat) (hf : ns.length < fuel) :
    readNumbers fuel (ns.map encodeNumber).flatten acc = .ok (acc.reverse ++ ns) := by
  induction ns generalizing acc fuel with
  | nil =>
    cases fuel with
    | zero => omega
    | succ f => simp [readNumbers]
  | cons n ns ih =>
    cases fuel with
    | zero => omega
    | succ f =>
      unfold readNumbers
      simp only [List.map_cons, List.flatten_cons]
      have hne : (encodeNumber n ++ (ns.map encodeNumber).flatten).isEmpty = false := by
        have := encodeNumber_ne_nil n
        cases h : encodeNumber n with
        | nil => exact absurd h this
        | cons _ _ => rfl
      simp only [hne, Bool.false_eq_true, if_false, readNumber_encodeNumber, bind, Except.bind, List.drop_left]
      rw [ih (n :: acc) f (by simpa using hf)]
      simp

/-- **OBJECT IDENTIFIER round trip** for every OID with first arc 0, 1 (second arc < 40) or 2 -/
theorem removeObject_encodeOid (first second : Nat) (pieces : List Nat) (rest : Bytes)
    (harc : (first < 2 ∧ second < 40) ∨ first = 2)
    (henc : Encodable (encodeNumber (40 * first + second) ++ (pieces.map encodeNumber).flatten).length) :
    removeObject (encodeOid first second pieces ++ rest) = .ok (first :: second :: pieces, rest) := by
  have hform : encodeOid first second pieces = 0x06 :: (encodeLength
      (encodeNumber (40 * first + second) ++ (pieces.map encodeNumber).flatten).length ++
      (encodeNumber (40 * first + second) ++ (pieces.map encodeNumber).flatten)) := rfl
  rw [hform]
  generalize hbody : encodeNumber (40 * first + second) ++ (pieces.map encodeNumber).flatten = body at henc ⊢
  unfold removeObject
  simp only [List.cons_append, List.append_assoc, bne_self_eq_false, Bool.false_eq_true, if_false]
  rw [readLength_encodeLength _ _ henc]
  simp only [bind, Except.bind]
  have hs := sliceBody_spec 0x06 (encodeLength body.length) body rest
  rw [hs]
  simp only
  have hne : body.isEmpty = false := by
    rw [← hbody]
    have := encodeNumber_ne_nil (40 * first + second)
    cases h : encodeNumber (40 * first + second) with
    | nil => exact absurd h this
    | cons _ _ => rfl
  simp only [hne, Bool.false_eq_true, if_false, bne_self_eq_false]
  have hflat : body = (((40 * first + second) :: pieces).map encodeNumber).flatten := by
    rw [← hbody]; simp
  have hlenb : pieces.length + 1 < body.length + 1 := by
    -- every number takes at least one byte
    have : ∀ l : List Nat, l.length ≤ (l.map encodeNumber).flatten.length := by
      intro l
      induction l with
      | nil => simp
      | cons x xs ih =>
        have := encodeNumber_ne_nil x
        simp only [List.map_cons, List.flatten_cons, List.length_append, List.length_cons]
        have : 1 ≤ (encodeNumber x).length := by
          cases h : encodeNumber x with
          | nil => exact absurd h ‹_›
          | cons _ _ => simp
        omega
    have := this ((40 * first + second) :: pieces)
    rw [← hflat] at this
    simp only [List.length_cons] at this
    omega
  rw [hflat, readNumbers_encode _ [] _ (by rw [← hflat]; simpa using hlenb)]
  simp only [List.reverse_nil, List.nil_append, pure, Except.pure]
  rcases harc with ⟨h1, h2⟩ | h1
  · have hlt : 40 * first + second < 80 := by omega
    have hd : (40 * first + second) / 40 = first := by omega
    have hsub : 40 * first + second - 40 * first = second := by omega
    simp only [hlt, if_true, hd, hsub]
  · subst h1
    have hge : ¬ (40 * 2 + second < 80) := by omega
    have hsub : 40 * 2 + second - 40 * 2 = second := by omega
    simp only [hge, if_false, hsub]

end Bec2Verif.Der
