import Bec2Verif.Lemmas.Reader
/-!
C04, structural part: the well-formed container encoding is prefix-free, so every truncation
(crash point of the writer's output stream) and every extension of an authentic body is rejected —
for every crypto plug-in and every key, without any cryptographic assumption.
-/
namespace Bec2Verif.Bf3
open Bec2Verif Bec2Verif.Spec.Layout

theorem entriesWF_weaken (C : Crypto) (chk : Bool) (key : Bytes) (i adr : Nat) (es : List RawEntry)
    (h : EntriesWF C chk key i adr es) (C' : Crypto) (key' : Bytes) : EntriesWF C' false key' i adr es := by
  induction es generalizing i adr with
  | nil => trivial
  | cons re rs ih =>
    obtain ⟨hre, hrs⟩ := h
    exact ⟨{ adrEq := hre.adrEq, adrLt := hre.adrLt, storedLt := hre.storedLt, declLe := hre.declLe,
             pmacLen := hre.pmacLen, emacLen := hre.emacLen, tagsLt := hre.tagsLt, tagsNodup := hre.tagsNodup,
             descLt := hre.descLt, entryLt := hre.entryLt, emacOk := (fun hc => Bool.noConfusion hc),
             pmacOk := (fun hc => Bool.noConfusion hc) }, ih _ _ hrs⟩

def totals (es : List RawEntry) : List Nat := es.map (fun re => (toEntM re).1.total)

theorem payloads_length (es : List RawEntry) : (payloads es).length = (totals es).sum := by
  induction es with
  | nil => rfl
  | cons re rs ih => simp only [payloads, List.length_append, ih, totals, List.map_cons, List.sum_cons, toEntM]

theorem toBE1_inj {a b : Nat} {x y : Bytes} (ha : a < 256) (hb : b < 256) (h : toBE 1 a ++ x = toBE 1 b ++ y) :
    a = b ∧ x = y := by
  have h1 : readInt 1 (toBE 1 a ++ x) = .ok (a, x) := readInt1 a x ha
  have h2 : readInt 1 (toBE 1 b ++ y) = .ok (b, y) := readInt1 b y hb
  rw [h] at h1
  rw [h1] at h2
  injection h2 with h2
  simp only [Prod.mk.injEq] at h2
  exact h2

/-- the directory bytes determine the entries (fields the reader keeps), hence the payload sizes -/
theorem dirBytes_determines (C C' : Crypto) (chk chk' : Bool) (key key' : Bytes) (adr adr' : Nat)
    (es es' : List RawEntry) (h : EntriesWF C chk key 0 adr es) (h' : EntriesWF C' chk' key' 0 adr' es')
    (heq : dirBytes es = dirBytes es') :
    es.map (fun re => (toEntM re).1) = es'.map (fun re => (toEntM re).1) := by
  have hw := entriesWF_weaken C chk key 0 adr es h C key
  have hw' := entriesWF_weaken C' chk' key' 0 adr' es' h' C key
  have hlen : ∀ (l : List RawEntry), l.length + 1 ≤ (dirBytes l).length + 1 := by
    intro l
    have : l.length ≤ (dirEntriesBytes l).length := by
      induction l with
      | nil => simp
      | cons re rs ih =>
        have := entryBytes_pos re
        simp only [dirEntriesBytes, List.length_append, List.length_cons, toBE_length]; omega
    simp only [dirBytes, List.length_append, List.length_cons, List.length_nil]; omega
  obtain ⟨len, dir, hs, hl, hp⟩ := parseEntries_complete C false key 0 adr es ((dirBytes es).length + 1) hw (hlen es)
  obtain ⟨len', dir', hs', hl', hp'⟩ :=
    parseEntries_complete C false key 0 adr' es' ((dirBytes es).length + 1) hw' (by rw [heq]; exact hlen es')
  rw [heq, hs'] at hs
  obtain ⟨rfl, rfl⟩ := toBE1_inj hl' hl hs
  rw [hp] at hp'
  injection hp' with hp'

theorem toBE_inj {k a b : Nat} (ha : a < 256 ^ k) (hb : b < 256 ^ k) (h : toBE k a = toBE k b) : a = b := by
  have := congrArg fromBE h
  rwa [fromBE_toBE k a ha, fromBE_toBE k b hb] at this

/-- **prefix-freeness**: a well-formed body is never a proper prefix of another well-formed body
(whatever the keys, offsets and plug-ins) -/
theorem wf_prefix_eq (C C' : Crypto) (chk chk' : Bool) (key key' : Bytes) (pos pos' : Nat)
    (b b' : Bytes) (es es' : List RawEntry)
    (h : WellFormed C chk key pos b es) (h' : WellFormed C' chk' key' pos' b' es')
    (hpre : ∃ t, b ++ t = b') : b = b' := by
  obtain ⟨t, ht⟩ := hpre
  obtain ⟨rfl, hsz, hents⟩ := h
  obtain ⟨rfl, hsz', hents'⟩ := h'
  simp only [bodyBytes, List.append_assoc] at ht ⊢
  have h4 : toBE 4 (dirBytes es).length = toBE 4 (dirBytes es').length ∧
      dirBytes es ++ (payloads es ++ t) = dirBytes es' ++ payloads es' :=
    List.append_inj ht (by simp)
  obtain ⟨hs, hrest⟩ := h4
  have hsize := toBE_inj hsz hsz' hs
  obtain ⟨hd, hp⟩ := List.append_inj hrest hsize
  have hmap := dirBytes_determines C C' chk chk' key key' _ _ es es' hents hents' hd
  have htot : totals es = totals es' := by
    have := congrArg (List.map (fun (e : Entry) => e.total)) hmap
    simp only [List.map_map] at this
    exact this
  have hplen : (payloads es).length = (payloads es').length := by
    rw [payloads_length, payloads_length, htot]
  have ht0 : t = [] := by
    have := congrArg List.length hp
    simp only [List.length_append] at this
    exact List.length_eq_zero_iff.mp (by omega)
  subst ht0
  simp only [List.append_nil] at hp
  rw [hs, hd, hp]

end Bec2Verif.Bf3
