import Bec2Verif.Model.CurveDer
import Bec2Verif.Lemmas.KeyDer
import Bec2Verif.Lemmas.Oid
import Bec2Verif.Lemmas.Sqrt
/-!
Explicit curve parameters: what `Curve.to_der("explicit", …)` writes, the DER part of `Curve.from_der` reads back —
`p`, `a mod p`, `b mod p`, the encoded base point, the order and the cofactor (a cofactor of zero is not written).
-/
namespace Bec2Verif.CurveDer
open Bec2Verif Der PointCodec KeyDer

/-- what the decoder sees of the cofactor -/
def normCof : Option Nat → Option Nat
  | some h => if h = 0 then none else some h
  | none => none

theorem primeField_oid (rest : Bytes) : removeObject (encOid oidPrimeField ++ rest) = .ok (oidPrimeField, rest) := by
  have : encOid oidPrimeField = encodeOid 1 2 [840, 10045, 1, 1] := rfl
  rw [this]
  exact removeObject_encodeOid 1 2 [840, 10045, 1, 1] rest (Or.inl ⟨by decide, by decide⟩) (encodable_lt _ (by decide))

theorem mod_lt_pow (p : Nat) (x : Int) (hp : 0 < p) : (x % (p : Int)).toNat < 256 ^ orderlen p := by
  have h1 : (x % (p : Int)).toNat < p := by
    have := Int.emod_lt_of_pos x (by exact_mod_cast hp : (0 : Int) < p)
    have h0 := Int.emod_nonneg x (by omega : (p : Int) ≠ 0)
    omega
  have h2 : p < 256 ^ orderlen p := by
    unfold orderlen
    have := fromBE_beBytes p
    have hb : fromBE (beBytes p) < 256 ^ (beBytes p).length := fromBE_lt (beBytes p)
    omega
  omega

/-- **explicit parameters round trip** (numbers below 2^1000 — every named curve — and a base point string of at most
1000 bytes): the decoder recovers what was encoded -/
theorem parse_toDer (p : Nat) (a b : Int) (base : Bytes) (order : Nat) (cof : Option Nat) (d : Bytes)
    (hp0 : 0 < p) (hp : (beBytes p).length ≤ 125) (ho : (beBytes order).length ≤ 125)
    (hc : ∀ h, cof = some h → (beBytes h).length ≤ 125) (hb : base.length ≤ 1000)
    (h : toDer p a b base order cof = .ok d) :
    parse d = .ok { p := p, a := (a % (p : Int)).toNat, b := (b % (p : Int)).toNat, base := base, order := order,
                    cofactor := normCof cof } := by
  unfold toDer at h
  rw [numberToString_lt _ _ (mod_lt_pow p a hp0), numberToString_lt _ _ (mod_lt_pow p b hp0)] at h
  simp only [bind, Except.bind, pure, Except.pure] at h
  injection h with h
  subst h
  have hol : orderlen p ≤ 125 := hp
  generalize hA : toBE (orderlen p) (a % (p : Int)).toNat = A
  generalize hB : toBE (orderlen p) (b % (p : Int)).toNat = B
  have hAl : A.length = orderlen p := by rw [← hA]; simp
  have hBl : B.length = orderlen p := by rw [← hB]; simp
  have hAv : fromBE A = (a % (p : Int)).toNat := by rw [← hA]; exact fromBE_toBE _ _ (mod_lt_pow p a hp0)
  have hBv : fromBE B = (b % (p : Int)).toNat := by rw [← hB]; exact fromBE_toBE _ _ (mod_lt_pow p b hp0)
  have hAne : A.isEmpty = false := by
    have : 0 < orderlen p := by
      unfold orderlen
      have := beBytes_ne_nil p
      cases hbb : beBytes p with
      | nil => exact absurd hbb this
      | cons _ _ => simp
    cases A with
    | nil => simp at hAl; omega
    | cons _ _ => rfl
  have hBne : B.isEmpty = false := by
    cases B with
    | nil =>
      have : 0 < orderlen p := by
        cases A with
        | nil => simp at hAne
        | cons _ _ => simp at hAl; omega
      simp at hBl; omega
    | cons _ _ => rfl
  -- sizes of the pieces
  have lint : ∀ n : Nat, (beBytes n).length ≤ 125 → (encodeInteger n).length ≤ 128 := by
    intro n hn
    unfold encodeInteger
    have hs : ∀ k, k < 128 → (encodeLength k).length = 1 := by intro k hk; simp [encodeLength, hk]
    simp only
    split
    · simp only [List.length_cons, List.length_append]; rw [hs _ (by omega)]; omega
    · simp only [List.length_cons, List.length_append]; rw [hs _ (by omega)]; omega
  have l1 : (encodeInteger 1).length = 3 := by rw [enc1]; rfl
  have lp := lint p hp
  have lo := lint order ho
  have loid : (encOid oidPrimeField).length = 9 := by decide
  have lA := len_oct A (by omega)
  have lB := len_oct B (by omega)
  have lbase := len_oct base (by omega)
  have lfield : [encOid oidPrimeField, encodeInteger p].flatten.length ≤ 137 := by
    simp only [List.flatten_cons, List.flatten_nil, List.length_append, List.length_nil]; omega
  have lcurve : [encodeOctetString A, encodeOctetString B].flatten.length ≤ 258 := by
    simp only [List.flatten_cons, List.flatten_nil, List.length_append, List.length_nil]; omega
  have lfs := len_seq [encOid oidPrimeField, encodeInteger p] (by omega)
  have lcs := len_seq [encodeOctetString A, encodeOctetString B] (by omega)
  -- the optional cofactor
  obtain ⟨hclen, hcparse⟩ : (cofPieces cof).flatten.length ≤ 128 ∧
      parseCof (cofPieces cof).flatten = .ok (normCof cof) := by
    unfold parseCof
    cases cof with
    | none => exact ⟨by simp [cofPieces], by simp [normCof, cofPieces]⟩
    | some hh =>
      by_cases h0 : hh = 0
      · exact ⟨by simp [cofPieces, h0], by simp [normCof, cofPieces, h0]⟩
      · refine ⟨?_, ?_⟩
        · simp only [cofPieces, h0, if_false, List.flatten_cons, List.flatten_nil, List.append_nil]; exact lint hh (hc hh rfl)
        · have hne : (encodeInteger hh).isEmpty = false := by
            unfold encodeInteger; simp only; split <;> rfl
          simp only [cofPieces, h0, if_false, List.flatten_cons, List.flatten_nil, List.append_nil, hne, Bool.false_eq_true]
          have := removeInteger_encode hh [] (by have := hc hh rfl; omega)
          rw [List.append_nil] at this
          rw [this]
          simp [normCof, h0, bind, Except.bind]
  generalize cofPieces cof = cl at hclen hcparse
  -- the outer SEQUENCE
  have hflat : ([encodeInteger 1, encodeSequence [encOid oidPrimeField, encodeInteger p],
      encodeSequence [encodeOctetString A, encodeOctetString B], encodeOctetString base, encodeInteger order] ++ cl).flatten =
      [0x02, 0x01, 0x01] ++ (encodeSequence [encOid oidPrimeField, encodeInteger p] ++
        (encodeSequence [encodeOctetString A, encodeOctetString B] ++ (encodeOctetString base ++
          (encodeInteger order ++ cl.flatten)))) := by
    simp [enc1]
  have eouter : Encodable ([encodeInteger 1, encodeSequence [encOid oidPrimeField, encodeInteger p],
      encodeSequence [encodeOctetString A, encodeOctetString B], encodeOctetString base, encodeInteger order] ++ cl).flatten.length := by
    apply encodable_lt
    rw [hflat]
    simp only [List.length_append, List.length_cons, List.length_nil]
    omega
  unfold parse
  have hs := removeSequence_encode _ [] eouter
  simp only [List.append_nil] at hs
  rw [hs]
  simp only [bind, Except.bind, List.isEmpty_nil, Bool.not_true, Bool.false_eq_true, if_false]
  rw [hflat, rmint1]
  simp only [bne_self_eq_false, Bool.false_eq_true, if_false]
  rw [removeSequence_encode _ _ (encodable_lt _ (by omega))]
  simp only
  rw [removeSequence_encode _ _ (encodable_lt _ (by omega))]
  simp only
  rw [removeOctetString_encode base _ (encodable_lt _ (by omega))]
  simp only
  rw [removeInteger_encode order _ (by omega)]
  simp only
  -- cofactor
  rw [hcparse]
  simp only
  -- field
  have hff : [encOid oidPrimeField, encodeInteger p].flatten = encOid oidPrimeField ++ (encodeInteger p ++ []) := by simp
  rw [hff, primeField_oid]
  simp only
  have hne1 : (oidPrimeField == oidChar2Field) = false := by decide
  have hne2 : (oidPrimeField != oidPrimeField) = false := by decide
  simp only [hne1, hne2, Bool.false_eq_true, if_false]
  rw [removeInteger_encode p [] (by omega)]
  simp only [List.isEmpty_nil, Bool.not_true, Bool.false_eq_true, if_false]
  -- curve
  have hcf : [encodeOctetString A, encodeOctetString B].flatten = encodeOctetString A ++ (encodeOctetString B ++ []) := by simp
  rw [hcf, removeOctetString_encode A _ (encodable_lt _ (by omega))]
  simp only
  rw [removeOctetString_encode B _ (encodable_lt _ (by omega))]
  simp only [hAne, hBne, Bool.or_self, Bool.false_eq_true, if_false, hAv, hBv]

end Bec2Verif.CurveDer
