import Bec2Verif.Lemmas.EcMul
/-!
`PointJacobi.mul_add` (Shamir's trick over two non-adjacent forms, with its fall-backs) computes `k₁ • A + k₂ • B`.
-/
set_option linter.style.nameCheck false
namespace Bec2Verif.EcC
open Bec2Verif Ec EcF WeierstrassCurve

variable {p : ℕ} [hp : Fact p.Prime] {a b : ℤ}

/-- `self * k` on an object: table for a generator, NAF otherwise -/
theorem pjMul_rep (hc : CurveOK p a b) (c : Curve) (hcp : c.p = p) (hca : c.a = a) (P : PJ)
    {A : (W (a : ZMod p) (b : ZMod p)).Point} (hP : PRep p a b A P.pt)
    (hord : P.order ≠ 0 → P.order • A = 0) (hgen : P.gen = true → 0 < P.order) (k : ℤ) {R : Pt}
    (h : pjMul c P k = some R) : PRep p a b (k • A) R := by
  unfold pjMul at h
  by_cases hg : P.gen = true
  · simp only [hg, if_true] at h
    have ho := hgen hg
    exact mulGen_rep hc c hcp hca P.order ho hP (hord (by omega)) k h
  · simp only [hg, Bool.false_eq_true, if_false] at h
    exact mulNaf_rep hc c hcp hca P.order hP hord k h

theorem optAdd_rep (hc : CurveOK p a b) (c : Curve) (hcp : c.p = p) (hca : c.a = a)
    {A B : (W (a : ZMod p) (b : ZMod p)).Point} {x y : Option Pt} {R : Pt}
    (hx : ∀ r, x = some r → PRep p a b A r) (hy : ∀ r, y = some r → PRep p a b B r)
    (h : optAdd c x y = some R) : PRep p a b (A + B) R := by
  unfold optAdd at h
  split at h
  · rename_i r1 r2
    simp only [Option.some.injEq] at h
    subst h
    exact add_rep hc c hcp hca (hx r1 rfl) (hy r2 rfl)
  · cases h

theorem negT_rep {A : (W (a : ZMod p) (b : ZMod p)).Point} {t : Triple} (h : TRep p a b A t) :
    TRep p a b (-A) (negT t) := by
  obtain ⟨X, Y, Z⟩ := t
  exact neg_rep (pt := .jac X Y Z) h

/-- MSB-first evaluation of a pair of digit lists -/
def fold2 (ds : List (ℤ × ℤ)) (n : ℤ × ℤ) : ℤ × ℤ := ds.foldl (fun m d => (2 * m.1 + d.1, 2 * m.2 + d.2)) n

theorem mulAddLoop_rep (hc : CurveOK p a b) (c : Curve) (hcp : c.p = p) (hca : c.a = a)
    (A B : (W (a : ZMod p) (b : ZMod p)).Point) (P1 P2 mAmB pAmB mApB pApB : Triple)
    (h1 : TRep p a b A P1) (h2 : TRep p a b B P2)
    (hmm : TRep p a b (-A + -B) mAmB) (hpm : TRep p a b (A + -B) pAmB)
    (hmp : TRep p a b (-A + B) mApB) (hpp : TRep p a b (A + B) pApB)
    (ds : List (ℤ × ℤ)) (hds : ∀ d ∈ ds, (d.1 = -1 ∨ d.1 = 0 ∨ d.1 = 1) ∧ (d.2 = -1 ∨ d.2 = 0 ∨ d.2 = 1))
    (n : ℤ × ℤ) (acc : Triple) (hacc : TRep p a b (n.1 • A + n.2 • B) acc) :
    TRep p a b ((fold2 ds n).1 • A + (fold2 ds n).2 • B) (mulAddLoop c P1 P2 mAmB pAmB mApB pApB ds acc) := by
  induction ds generalizing n acc with
  | nil => simpa [mulAddLoop, fold2] using hacc
  | cons d ds ih =>
    obtain ⟨dA, dB⟩ := d
    obtain ⟨X3, Y3, Z3⟩ := acc
    obtain ⟨n1, n2⟩ := n
    simp only [mulAddLoop, fold2, List.foldl_cons, hcp, hca]
    have hd := double__rep hc _ X3 Y3 Z3 hacc
    have h2n : n1 • A + n2 • B + (n1 • A + n2 • B) = (2 * n1) • A + (2 * n2) • B := by
      rw [two_mul, two_mul, add_zsmul, add_zsmul]; abel
    simp only at hd
    rw [h2n] at hd
    obtain ⟨hdA, hdB⟩ := hds (dA, dB) (by simp)
    simp only at hdA hdB
    apply ih (fun d' hd' => hds d' (List.mem_cons_of_mem _ hd'))
    -- one lemma for all eight additions
    have step : ∀ (T : (W (a : ZMod p) (b : ZMod p)).Point) (t : Triple) (e1 e2 : ℤ), TRep p a b T t →
        T = e1 • A + e2 • B →
        TRep p a b ((2 * n1 + e1) • A + (2 * n2 + e2) • B)
          (add_ (double_ X3 Y3 Z3 p a).1 (double_ X3 Y3 Z3 p a).2.1 (double_ X3 Y3 Z3 p a).2.2 t.1 t.2.1 t.2.2 p a) := by
      intro T t e1 e2 hT hTe
      have := add__rep hc _ _ _ _ _ _ _ _ hd hT
      have e : (2 * n1) • A + (2 * n2) • B + T = (2 * n1 + e1) • A + (2 * n2 + e2) • B := by
        rw [hTe, add_zsmul, add_zsmul]; abel
      rw [e] at this
      exact this
    rcases hdA with rfl | rfl | rfl <;> rcases hdB with rfl | rfl | rfl
    · simpa using step _ mAmB (-1) (-1) hmm (by simp)
    · simpa using step _ (negT P1) (-1) 0 (negT_rep h1) (by simp)
    · simpa using step _ mApB (-1) 1 hmp (by simp)
    · simpa using step _ (negT P2) 0 (-1) (negT_rep h2) (by simp)
    · simpa using hd
    · simpa using step _ P2 0 1 h2 (by simp)
    · simpa using step _ pAmB 1 (-1) hpm (by simp)
    · simpa using step _ P1 1 0 h1 (by simp)
    · simpa using step _ pApB 1 1 hpp (by simp)

/-! ### the zipped, left-padded digit lists -/

theorem fold2_zip (as bs : List ℤ) (hl : as.length = bs.length) (n : ℤ × ℤ) :
    fold2 (as.zip bs) n = (as.foldl (fun m d => 2 * m + d) n.1, bs.foldl (fun m d => 2 * m + d) n.2) := by
  induction as generalizing bs n with
  | nil => cases bs with
    | nil => simp [fold2]
    | cons _ _ => simp at hl
  | cons x xs ih => cases bs with
    | nil => simp at hl
    | cons y ys =>
      simp only [List.zip_cons_cons, fold2, List.foldl_cons]
      have := ih ys (by simpa using hl) (2 * n.1 + x, 2 * n.2 + y)
      simpa [fold2] using this

theorem foldl_zeros (k : ℕ) (ds : List ℤ) :
    (List.replicate k 0 ++ ds).foldl (fun m d => 2 * m + d) 0 = ds.foldl (fun m d => 2 * m + d) 0 := by
  induction k with
  | zero => simp
  | succ k ih => simpa [List.replicate_succ] using ih

theorem fold2_padZip (as bs : List ℤ) :
    fold2 (padZip as bs) (0, 0) = (as.foldl (fun m d => 2 * m + d) 0, bs.foldl (fun m d => 2 * m + d) 0) := by
  unfold padZip
  simp only
  rw [fold2_zip _ _ (by simp; omega)]
  simp only [foldl_zeros]

theorem padZip_digits (as bs : List ℤ) (ha : ∀ d ∈ as, d = -1 ∨ d = 0 ∨ d = 1) (hb : ∀ d ∈ bs, d = -1 ∨ d = 0 ∨ d = 1) :
    ∀ d ∈ padZip as bs, (d.1 = -1 ∨ d.1 = 0 ∨ d.1 = 1) ∧ (d.2 = -1 ∨ d.2 = 0 ∨ d.2 = 1) := by
  intro d hd
  unfold padZip at hd
  simp only at hd
  have h1 := (List.of_mem_zip hd).1
  have h2 := (List.of_mem_zip hd).2
  constructor
  · rcases List.mem_append.mp h1 with h | h
    · rw [List.mem_replicate] at h; exact Or.inr (Or.inl h.2)
    · exact ha _ h
  · rcases List.mem_append.mp h2 with h | h
    · rw [List.mem_replicate] at h; exact Or.inr (Or.inl h.2)
    · exact hb _ h

/-- C17: `mul_add` computes `k₁ • A + k₂ • B`; both scalars are reduced by the order of the first point, which
therefore has to annihilate both points (they lie in the same cyclic group of that order) -/
theorem mulAdd_rep (hc : CurveOK p a b) (c : Curve) (hcp : c.p = p) (hca : c.a = a) (P : PJ) (Q : Option PJ)
    {A B : (W (a : ZMod p) (b : ZMod p)).Point} (hP : PRep p a b A P.pt)
    (hQ : match Q with | none => B = 0 | some Q => PRep p a b B Q.pt)
    (hordA : P.order ≠ 0 → P.order • A = 0) (hordB : P.order ≠ 0 → P.order • B = 0)
    (hordQ : ∀ Q', Q = some Q' → Q'.order ≠ 0 → Q'.order • B = 0)
    (hgenP : P.gen = true → 0 < P.order) (hgenQ : ∀ Q', Q = some Q' → Q'.gen = true → 0 < Q'.order)
    (k1 k2 : ℤ) {R : Pt} (h : mulAdd c P k1 Q k2 = some R) : PRep p a b (k1 • A + k2 • B) R := by
  cases Q with
  | none =>
    simp only at hQ
    subst hQ
    simp only [mulAdd] at h
    rw [zsmul_zero, add_zero]
    exact pjMul_rep hc c hcp hca P hP hordA hgenP k1 h
  | some Q =>
    simp only at hQ
    have hoQ := hordQ Q rfl
    have hgQ := hgenQ Q rfl
    unfold mulAdd at h
    simp only at h
    by_cases c1 : (isInf Q.pt || k2 == 0) = true
    · simp only [c1, if_true] at h
      have : k2 • B = 0 := by
        simp only [Bool.or_eq_true, beq_iff_eq] at c1
        rcases c1 with c1 | c1
        · rw [(isInf_rep hc hQ).mp c1, zsmul_zero]
        · rw [c1, zero_zsmul]
      rw [this, add_zero]
      exact pjMul_rep hc c hcp hca P hP hordA hgenP k1 h
    · simp only [c1, Bool.false_eq_true, if_false] at h
      by_cases c2 : k1 = 0
      · subst c2
        simp only [beq_self_eq_true, if_true] at h
        rw [zero_zsmul, zero_add]
        exact pjMul_rep hc c hcp hca Q hQ hoQ hgQ k2 h
      · have : (k1 == 0) = false := by simpa using c2
        simp only [this, Bool.false_eq_true, if_false] at h
        by_cases c3 : (P.gen && Q.gen) = true
        · simp only [c3, if_true] at h
          exact optAdd_rep hc c hcp hca
            (fun r hr => pjMul_rep hc c hcp hca P hP hordA hgenP k1 hr)
            (fun r hr => pjMul_rep hc c hcp hca Q hQ hoQ hgQ k2 hr) h
        · simp only [c3, Bool.false_eq_true, if_false] at h
          -- reduction of both scalars by the order of the first point
          have hk1 : (if (P.order != 0) = true then k1 % P.order else k1) • A = k1 • A := by
            by_cases ho : P.order = 0
            · simp [ho]
            · have : (P.order != 0) = true := by simpa using ho
              simp only [this, if_true]
              conv_rhs => rw [← Int.emod_add_mul_ediv k1 P.order]
              rw [add_zsmul, mul_comm P.order, mul_zsmul, hordA ho, zsmul_zero, add_zero]
          have hk2 : (if (P.order != 0) = true then k2 % P.order else k2) • B = k2 • B := by
            by_cases ho : P.order = 0
            · simp [ho]
            · have : (P.order != 0) = true := by simpa using ho
              simp only [this, if_true]
              conv_rhs => rw [← Int.emod_add_mul_ediv k2 P.order]
              rw [add_zsmul, mul_comm P.order, mul_zsmul, hordB ho, zsmul_zero, add_zero]
          generalize (if (P.order != 0) = true then k1 % P.order else k1) = k1' at h hk1
          generalize (if (P.order != 0) = true then k2 % P.order else k2) = k2' at h hk2
          rw [← hk1, ← hk2]
          split at h
          · rename_i P1 P2 hs1 hs2
            have hP' : TRep p a b A (P.X, P.Y, P.Z) := hP
            have hQ' : TRep p a b B (Q.X, Q.Y, Q.Z) := hQ
            obtain ⟨hr1, hz1⟩ := scale_rep c hcp hP' hs1
            obtain ⟨hr2, hz2⟩ := scale_rep c hcp hQ' hs2
            obtain ⟨X1, Y1, Z1⟩ := P1
            obtain ⟨X2, Y2, Z2⟩ := P2
            simp only [hcp, hca] at h
            have hn1 := negT_rep hr1
            have hn2 := negT_rep hr2
            simp only [negT] at hn1 hn2
            have hmm := add__rep hc _ _ _ _ _ _ _ _ hn1 hn2
            have hpm := add__rep hc _ _ _ _ _ _ _ _ hr1 hn2
            have hmp := add__rep hc _ _ _ _ _ _ _ _ hn1 hr2
            have hpp := add__rep hc _ _ _ _ _ _ _ _ hr1 hr2
            split at h
            · -- the two points sum to infinity: one multiplication each
              exact optAdd_rep hc c hcp hca
                (fun r hr => pjMul_rep hc c hcp hca { X := X1, Y := Y1, Z := Z1, order := P.order, gen := P.gen }
                  (by exact hr1) hordA hgenP k1' hr)
                (fun r hr => pjMul_rep hc c hcp hca { X := X2, Y := Y2, Z := Z2, order := Q.order, gen := Q.gen }
                  (by exact hr2) hoQ hgQ k2' hr) h
            · simp only [Option.some.injEq] at h
              subst h
              apply wrap_rep hc
              have := mulAddLoop_rep hc c hcp hca A B _ _ _ _ _ _ hr1 hr2 hmm hpm hmp hpp
                (padZip (nafOf k1').reverse (nafOf k2').reverse)
                (padZip_digits _ _ (fun d hd => naf_digits _ _ d (List.mem_reverse.mp hd))
                  (fun d hd => naf_digits _ _ d (List.mem_reverse.mp hd)))
                (0, 0) (0, 0, 1) (by simp only [zero_zsmul, add_zero]; exact trep_inf)
              rw [fold2_padZip, foldl_reverse_evalLE, foldl_reverse_evalLE, nafOf_eval, nafOf_eval] at this
              simpa [negT, hcp, hca] using this
          · cases h

end Bec2Verif.EcC
