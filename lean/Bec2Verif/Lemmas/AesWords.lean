import Bec2Verif.Model.Aes
import Bec2Verif.Lemmas.AesSpecInv
/-!
The table-driven rounds of `pyaes` on packed 32-bit words are the FIPS-197 round transformations on the byte state:
byte extraction distributes over XOR, every entry of T1..T8, U1..U4, S, Si (regenerated from the source) is the column
the standard prescribes, and so `encRound` = AddRoundKey ∘ MixColumns ∘ ShiftRows ∘ SubBytes and `decRound` = the round
of the equivalent inverse cipher.
-/
namespace Bec2Verif.AesW
open Bec2Verif Bec2Verif.Aes Bec2Verif.Gen Bec2Verif.Spec.Gf Bec2Verif.Spec.Fips Bec2Verif.AesGf

set_option maxRecDepth 1000000

def colOf (w : Nat) : Col := (b0 w, b1 w, b2 w, b3 w)

theorem b_xor (x y : Nat) : b0 (x ^^^ y) = b0 x ^^^ b0 y ∧ b1 (x ^^^ y) = b1 x ^^^ b1 y ∧
    b2 (x ^^^ y) = b2 x ^^^ b2 y ∧ b3 (x ^^^ y) = b3 x ^^^ b3 y := by
  simp only [b0, b1, b2, b3, Nat.shiftRight_xor_distrib, Nat.and_xor_distrib_right, and_self]

theorem colOf_xor (x y : Nat) : colOf (x ^^^ y) = xorCol (colOf x) (colOf y) := by
  obtain ⟨h0, h1, h2, h3⟩ := b_xor x y
  simp only [colOf, xorCol, h0, h1, h2, h3]

theorem b0_lt (w : Nat) : b0 w < 256 := Nat.and_lt_two_pow _ (by decide : 0xFF < 2 ^ 8)
theorem b1_lt (w : Nat) : b1 w < 256 := Nat.and_lt_two_pow _ (by decide : 0xFF < 2 ^ 8)
theorem b2_lt (w : Nat) : b2 w < 256 := Nat.and_lt_two_pow _ (by decide : 0xFF < 2 ^ 8)
theorem b3_lt (w : Nat) : b3 w < 256 := Nat.and_lt_two_pow _ (by decide : 0xFF < 2 ^ 8)

theorem colOf_byte (w : Nat) : ByteCol (colOf w) := ⟨b0_lt w, b1_lt w, b2_lt w, b3_lt w⟩

theorem b_div (w : Nat) : b0 w = w / 16777216 % 256 ∧ b1 w = w / 65536 % 256 ∧ b2 w = w / 256 % 256 ∧ b3 w = w % 256 := by
  have h : (255 : Nat) = 2 ^ 8 - 1 := rfl
  refine ⟨?_, ?_, ?_, ?_⟩
  · show (w >>> 24) &&& 255 = _
    rw [h, Nat.and_two_pow_sub_one_eq_mod, Nat.shiftRight_eq_div_pow]
  · show (w >>> 16) &&& 255 = _
    rw [h, Nat.and_two_pow_sub_one_eq_mod, Nat.shiftRight_eq_div_pow]
  · show (w >>> 8) &&& 255 = _
    rw [h, Nat.and_two_pow_sub_one_eq_mod, Nat.shiftRight_eq_div_pow]
  · show w &&& 255 = _
    rw [h, Nat.and_two_pow_sub_one_eq_mod]

theorem compact_eq (a b c d : Nat) (hb : b < 256) (hc : c < 256) (hd : d < 256) :
    compact a b c d = a * 16777216 + b * 65536 + c * 256 + d := by
  unfold compact
  have e1 : a <<< 24 ||| b <<< 16 = (a * 256 + b) <<< 16 := by
    rw [← Nat.shiftLeft_add_eq_or_of_lt (by simp only [Nat.shiftLeft_eq]; omega)]
    simp only [Nat.shiftLeft_eq]; omega
  have e2 : (a * 256 + b) <<< 16 ||| c <<< 8 = ((a * 256 + b) * 256 + c) <<< 8 := by
    rw [← Nat.shiftLeft_add_eq_or_of_lt (by simp only [Nat.shiftLeft_eq]; omega)]
    simp only [Nat.shiftLeft_eq]; omega
  rw [e1, e2, ← Nat.shiftLeft_add_eq_or_of_lt (by omega)]
  simp only [Nat.shiftLeft_eq]; omega

theorem colOf_compact (a b c d : Nat) (ha : a < 256) (hb : b < 256) (hc : c < 256) (hd : d < 256) :
    colOf (compact a b c d) = (a, b, c, d) := by
  rw [compact_eq a b c d hb hc hd]
  obtain ⟨h0, h1, h2, h3⟩ := b_div (a * 16777216 + b * 65536 + c * 256 + d)
  simp only [colOf, h0, h1, h2, h3]
  refine Prod.ext ?_ (Prod.ext ?_ (Prod.ext ?_ ?_)) <;> simp only <;> omega

/-! ### the tables, column by column -/

def colEq : Col → Col → Bool
  | (a, b, c, d), (a', b', c', d') => Nat.beq a a' && Nat.beq b b' && Nat.beq c c' && Nat.beq d d'

theorem colEq_spec (x y : Col) (h : colEq x y = true) : x = y := by
  obtain ⟨a, b, c, d⟩ := x
  obtain ⟨a', b', c', d'⟩ := y
  simp only [colEq, Bool.and_eq_true] at h
  obtain ⟨⟨⟨h1, h2⟩, h3⟩, h4⟩ := h
  rw [Nat.eq_of_beq_eq_true h1, Nat.eq_of_beq_eq_true h2, Nat.eq_of_beq_eq_true h3, Nat.eq_of_beq_eq_true h4]

theorem enc_tab : allBelow (fun x => let s := sbox x
    colEq (colOf (tab T1 x)) (gmul s 2, s, s, gmul s 3) && colEq (colOf (tab T2 x)) (gmul s 3, gmul s 2, s, s) &&
    colEq (colOf (tab T3 x)) (s, gmul s 3, gmul s 2, s) && colEq (colOf (tab T4 x)) (s, s, gmul s 3, gmul s 2) &&
    Nat.beq (tab S x) s) 256 = true := by decide +kernel

theorem dec_tab : allBelow (fun x => let t := invSbox x
    colEq (colOf (tab T5 x)) (gmul t 14, gmul t 9, gmul t 13, gmul t 11) &&
    colEq (colOf (tab T6 x)) (gmul t 11, gmul t 14, gmul t 9, gmul t 13) &&
    colEq (colOf (tab T7 x)) (gmul t 13, gmul t 11, gmul t 14, gmul t 9) &&
    colEq (colOf (tab T8 x)) (gmul t 9, gmul t 13, gmul t 11, gmul t 14) &&
    Nat.beq (tab Si x) t) 256 = true := by decide +kernel

theorem u_tab : allBelow (fun x =>
    colEq (colOf (tab U1 x)) (gmul x 14, gmul x 9, gmul x 13, gmul x 11) &&
    colEq (colOf (tab U2 x)) (gmul x 11, gmul x 14, gmul x 9, gmul x 13) &&
    colEq (colOf (tab U3 x)) (gmul x 13, gmul x 11, gmul x 14, gmul x 9) &&
    colEq (colOf (tab U4 x)) (gmul x 9, gmul x 13, gmul x 11, gmul x 14)) 256 = true := by decide +kernel

theorem enc_tabs (x : Nat) (h : x < 256) :
    colOf (tab T1 x) = (gmul (sbox x) 2, sbox x, sbox x, gmul (sbox x) 3) ∧
    colOf (tab T2 x) = (gmul (sbox x) 3, gmul (sbox x) 2, sbox x, sbox x) ∧
    colOf (tab T3 x) = (sbox x, gmul (sbox x) 3, gmul (sbox x) 2, sbox x) ∧
    colOf (tab T4 x) = (sbox x, sbox x, gmul (sbox x) 3, gmul (sbox x) 2) ∧ tab S x = sbox x := by
  have := allBelow_spec _ _ enc_tab x h
  simp only [Bool.and_eq_true] at this
  obtain ⟨⟨⟨⟨h1, h2⟩, h3⟩, h4⟩, h5⟩ := this
  exact ⟨colEq_spec _ _ h1, colEq_spec _ _ h2, colEq_spec _ _ h3, colEq_spec _ _ h4, Nat.eq_of_beq_eq_true h5⟩

theorem dec_tabs (x : Nat) (h : x < 256) :
    colOf (tab T5 x) = (gmul (invSbox x) 14, gmul (invSbox x) 9, gmul (invSbox x) 13, gmul (invSbox x) 11) ∧
    colOf (tab T6 x) = (gmul (invSbox x) 11, gmul (invSbox x) 14, gmul (invSbox x) 9, gmul (invSbox x) 13) ∧
    colOf (tab T7 x) = (gmul (invSbox x) 13, gmul (invSbox x) 11, gmul (invSbox x) 14, gmul (invSbox x) 9) ∧
    colOf (tab T8 x) = (gmul (invSbox x) 9, gmul (invSbox x) 13, gmul (invSbox x) 11, gmul (invSbox x) 14) ∧
    tab Si x = invSbox x := by
  have := allBelow_spec _ _ dec_tab x h
  simp only [Bool.and_eq_true] at this
  obtain ⟨⟨⟨⟨h1, h2⟩, h3⟩, h4⟩, h5⟩ := this
  exact ⟨colEq_spec _ _ h1, colEq_spec _ _ h2, colEq_spec _ _ h3, colEq_spec _ _ h4, Nat.eq_of_beq_eq_true h5⟩

theorem u_tabs (x : Nat) (h : x < 256) :
    colOf (tab U1 x) = (gmul x 14, gmul x 9, gmul x 13, gmul x 11) ∧
    colOf (tab U2 x) = (gmul x 11, gmul x 14, gmul x 9, gmul x 13) ∧
    colOf (tab U3 x) = (gmul x 13, gmul x 11, gmul x 14, gmul x 9) ∧
    colOf (tab U4 x) = (gmul x 9, gmul x 13, gmul x 11, gmul x 14) := by
  have := allBelow_spec _ _ u_tab x h
  simp only [Bool.and_eq_true] at this
  obtain ⟨⟨⟨h1, h2⟩, h3⟩, h4⟩ := this
  exact ⟨colEq_spec _ _ h1, colEq_spec _ _ h2, colEq_spec _ _ h3, colEq_spec _ _ h4⟩

/-- one output word of an encryption round -/
theorem encWord (a b c d k : Nat) (ha : a < 256) (hb : b < 256) (hc : c < 256) (hd : d < 256) :
    colOf (tab T1 a ^^^ tab T2 b ^^^ tab T3 c ^^^ tab T4 d ^^^ k) =
      xorCol (mixCol (sbox a, sbox b, sbox c, sbox d)) (colOf k) := by
  simp only [colOf_xor, (enc_tabs a ha).1, (enc_tabs b hb).2.1, (enc_tabs c hc).2.2.1, (enc_tabs d hd).2.2.2.1,
    xorCol, mixCol]

/-- one output word of a decryption round -/
theorem decWord (a b c d k : Nat) (ha : a < 256) (hb : b < 256) (hc : c < 256) (hd : d < 256) :
    colOf (tab T5 a ^^^ tab T6 b ^^^ tab T7 c ^^^ tab T8 d ^^^ k) =
      xorCol (invMixCol (invSbox a, invSbox b, invSbox c, invSbox d)) (colOf k) := by
  simp only [colOf_xor, (dec_tabs a ha).1, (dec_tabs b hb).2.1, (dec_tabs c hc).2.2.1, (dec_tabs d hd).2.2.2.1,
    xorCol, invMixCol]

/-- the key transformation of the equivalent inverse cipher -/
theorem invMixWord_col (tt : Nat) : colOf (invMixWord tt) = invMixCol (colOf tt) := by
  unfold invMixWord
  rw [colOf_xor, colOf_xor, colOf_xor, (u_tabs _ (b0_lt tt)).1, (u_tabs _ (b1_lt tt)).2.1, (u_tabs _ (b2_lt tt)).2.2.1,
    (u_tabs _ (b3_lt tt)).2.2.2]
  rfl

end Bec2Verif.AesW
