import Bec2Verif.Lemmas.RwLockInv
/-!
Consequences of the invariant of the reader-writer lock, for any number of threads:
mutual exclusion of a writer with everybody else, and absence of deadlock.
-/
namespace Bec2Verif.RwLock

theorem cnt_init (P : Thread → Bool) (hP : ∀ r, P ⟨r, 0⟩ = false) (ts : List Role) : cnt P (init ts) = 0 := by
  simp only [cnt, init]
  induction ts with
  | nil => rfl
  | cons r rs ih => simp [List.countP_cons, hP r, ih]

theorem inv_init (ts : List Role) : Inv (init ts) := by
  have z : ∀ P : Thread → Bool, (∀ r, P ⟨r, 0⟩ = false) → cnt P (init ts) = 0 := fun P h => cnt_init P h ts
  have h1 := z cntd (by intro r; cases r <;> rfl)
  have h2 := z rmh (by intro r; cases r <;> rfl)
  have h3 := z wh (by intro r; cases r <;> rfl)
  have h4 := z rin (by intro r; cases r <;> rfl)
  have h5 := z at6 (by intro r; cases r <;> rfl)
  have h6 := z at15 (by intro r; cases r <;> rfl)
  have h7 := z wcn (by intro r; cases r <;> rfl)
  have h8 := z wmh (by intro r; cases r <;> rfl)
  have h9 := z nrh (by intro r; cases r <;> rfl)
  have h10 := z won (by intro r; cases r <;> rfl)
  have h11 := z rqh (by intro r; cases r <;> rfl)
  have h12 := z at4w (by intro r; cases r <;> rfl)
  have h13 := z at13w (by intro r; cases r <;> rfl)
  refine ⟨?_, ?_, ?_, ?_, ?_, ?_, ?_, ?_, ?_, ?_, ?_⟩ <;>
    simp only [h1, h2, h3, h4, h5, h6, h7, h8, h9, h10, h11, h12, h13] <;> simp [init]

/-- the invariant holds in every reachable state -/
theorem inv_reachable (ts : List Role) (s : State) (h : Reachable ts s) : Inv s := by
  induction h with
  | init => exact inv_init ts
  | step i _ hs ih => exact step_inv _ _ i hs ih

/-- two different positions of a list that satisfy `P` -/
theorem two_le_countP {α : Type} (P : α → Bool) (l : List α) (i j : Nat) (hi : i < l.length) (hj : j < l.length)
    (hij : i ≠ j) (hPi : P l[i] = true) (hPj : P l[j] = true) : 2 ≤ l.countP P := by
  induction l generalizing i j with
  | nil => simp at hi
  | cons x xs ih =>
    simp only [List.countP_cons]
    cases i with
    | zero =>
      cases j with
      | zero => exact absurd rfl hij
      | succ j' =>
        simp only [List.getElem_cons_zero] at hPi
        simp only [List.getElem_cons_succ] at hPj
        have := countP_pos_of_mem P xs j' (by simpa using hj) hPj
        rw [if_pos hPi]; omega
    | succ i' =>
      cases j with
      | zero =>
        simp only [List.getElem_cons_zero] at hPj
        simp only [List.getElem_cons_succ] at hPi
        have := countP_pos_of_mem P xs i' (by simpa using hi) hPi
        rw [if_pos hPj]; omega
      | succ j' =>
        simp only [List.getElem_cons_succ] at hPi hPj
        have := ih i' j' (by simpa using hi) (by simpa using hj) (by omega) hPi hPj
        split <;> omega

theorem two_le_cnt (P : Thread → Bool) (s : State) (i j : Nat) (hi : i < s.threads.length) (hj : j < s.threads.length)
    (hij : i ≠ j) (hPi : P s.threads[i] = true) (hPj : P s.threads[j] = true) : 2 ≤ cnt P s :=
  two_le_countP P s.threads i j hi hj hij hPi hPj

/-- C20 (lock, safety): in every reachable state, for any number of readers and writers, a writer in the critical
section is alone there -/
theorem writer_exclusive (ts : List Role) (s : State) (hr : Reachable ts s) (i j : Nat)
    (hi : i < s.threads.length) (hj : j < s.threads.length) (hij : i ≠ j)
    (hw : s.threads[i] = ⟨.writer, writerCS⟩) (hc : inCS s.threads[j] = true) : False := by
  have inv := inv_reachable ts s hr
  have b := Bool.toNat_le s.nw
  have hwi : wh s.threads[i] = true := by rw [hw]; decide
  have h1 := countP_pos_of_mem wh s.threads i hi hwi
  generalize htj : s.threads[j] = tj at hc
  obtain ⟨role, pc⟩ := tj
  cases role with
  | writer =>
    have hpc : pc = writerCS := by simpa [inCS, htj] using hc
    have hwj : wh s.threads[j] = true := by rw [htj, hpc]; decide
    have := two_le_cnt wh s i j hi hj hij hwi hwj
    have e := inv.nw_eq
    simp only [cnt] at *
    omega
  | reader =>
    have hpc : pc = readerCS := by simpa [inCS, htj] using hc
    have hrj : rin s.threads[j] = true := by rw [htj, hpc]; decide
    have h2 := countP_pos_of_mem rin s.threads j hj hrj
    have e := inv.nw_eq
    simp only [cnt] at *
    omega

end Bec2Verif.RwLock

namespace Bec2Verif.RwLock

/-! ### absence of deadlock -/

/-- the thread cannot execute its next line: it has finished, or the line acquires a mutex that is taken -/
def bd (s : State) (t : Thread) : Bool :=
  match t.role with
  | .reader => (t.pc == 0 && s.rq) || (t.pc == 1 && s.nr) || (t.pc == 3 && s.rm) || (t.pc == 6 && s.nw)
      || (t.pc == 12 && s.rm) || decide (17 ≤ t.pc)
  | .writer => (t.pc == 1 && s.wm) || (t.pc == 4 && s.nr) || (t.pc == 6 && s.nw) || (t.pc == 10 && s.wm)
      || decide (15 ≤ t.pc)

theorem step_some_of_not_bd (s : State) (i : Nat) (hi : i < s.threads.length) (h : bd s s.threads[i] = false) :
    (step s i).isSome = true := by
  have hti : s.threads[i]? = some s.threads[i] := List.getElem?_eq_getElem hi
  generalize s.threads[i] = t at h hti
  obtain ⟨role, pc⟩ := t
  simp only [step, hti]
  cases role with
  | reader =>
    simp only [bd, Bool.or_eq_false_iff, Bool.and_eq_false_iff, decide_eq_false_iff_not, beq_eq_false_iff_ne, ne_eq] at h
    obtain ⟨⟨⟨⟨⟨h0, h1⟩, h3⟩, h6⟩, h12⟩, hlt⟩ := h
    have hc : pc = 0 ∨ pc = 1 ∨ pc = 2 ∨ pc = 3 ∨ pc = 4 ∨ pc = 5 ∨ pc = 6 ∨ pc = 7 ∨ pc = 8 ∨ pc = 9 ∨ pc = 10 ∨
        pc = 11 ∨ pc = 12 ∨ pc = 13 ∨ pc = 14 ∨ pc = 15 ∨ pc = 16 := by omega
    rcases hc with rfl | rfl | rfl | rfl | rfl | rfl | rfl | rfl | rfl | rfl | rfl | rfl | rfl | rfl | rfl | rfl | rfl <;>
      simp_all [readerStep]
  | writer =>
    simp only [bd, Bool.or_eq_false_iff, Bool.and_eq_false_iff, decide_eq_false_iff_not, beq_eq_false_iff_ne, ne_eq] at h
    obtain ⟨⟨⟨⟨h1, h4⟩, h6⟩, h10⟩, hlt⟩ := h
    have hc : pc = 0 ∨ pc = 1 ∨ pc = 2 ∨ pc = 3 ∨ pc = 4 ∨ pc = 5 ∨ pc = 6 ∨ pc = 7 ∨ pc = 8 ∨ pc = 9 ∨ pc = 10 ∨
        pc = 11 ∨ pc = 12 ∨ pc = 13 ∨ pc = 14 := by omega
    rcases hc with rfl | rfl | rfl | rfl | rfl | rfl | rfl | rfl | rfl | rfl | rfl | rfl | rfl | rfl | rfl <;>
      simp_all [writerStep]

theorem exists_of_cnt_pos (P : Thread → Bool) (s : State) (h : 0 < cnt P s) :
    ∃ i, ∃ hi : i < s.threads.length, P s.threads[i] = true := by
  obtain ⟨t, ht, hP⟩ := List.countP_pos_iff.mp h
  obtain ⟨i, hi, rfl⟩ := List.mem_iff_getElem.mp ht
  exact ⟨i, hi, hP⟩

end Bec2Verif.RwLock

namespace Bec2Verif.RwLock

/-- destruct a thread, evaluate the predicates with the known lock flags, finish by arithmetic -/
syntax "bdt" "[" Lean.Parser.Tactic.simpLemma,* "]" : tactic
macro_rules
  | `(tactic| bdt [$flags,*]) => `(tactic| (
      intro t ht
      obtain ⟨r, pc⟩ := t
      cases r <;> simp [bd, cntd, rmh, rin, wh, rqh, nrh, wcn, wmh, won, at6, at15, at4w, at13w, isR, isW, $flags,*] at ht ⊢ <;> omega))

theorem contra_of (P : Thread → Bool) (s : State) (stuck : ∀ i (hi : i < s.threads.length), bd s s.threads[i] = true)
    (h : 0 < cnt P s) (hP : ∀ t, P t = true → bd s t = false) : False := by
  obtain ⟨i, hi, hPi⟩ := exists_of_cnt_pos P s h
  have := stuck i hi
  rw [hP _ hPi] at this
  cases this

/-- a thread that still has a line to execute -/
def unfinished (t : Thread) : Bool :=
  match t.role with | .reader => decide (t.pc < readerDone) | .writer => decide (t.pc < writerDone)

theorem rin_blocked (s : State) (t : Thread) (h : rin t = true) (hb : bd s t = true) :
    t = ⟨.reader, 12⟩ ∧ s.rm = true := by
  obtain ⟨r, pc⟩ := t
  cases r with
  | writer => simp [rin, isR] at h
  | reader =>
    have hr : 7 ≤ pc ∧ pc ≤ 15 := by simpa [rin, isR] using h
    have hc : pc = 7 ∨ pc = 8 ∨ pc = 9 ∨ pc = 10 ∨ pc = 11 ∨ pc = 12 ∨ pc = 13 ∨ pc = 14 ∨ pc = 15 := by omega
    rcases hc with rfl | rfl | rfl | rfl | rfl | rfl | rfl | rfl | rfl <;> simp_all [bd]

theorem rmh_blocked (s : State) (t : Thread) (h : rmh t = true) (hb : bd s t = true) :
    t = ⟨.reader, 6⟩ ∧ s.nw = true := by
  obtain ⟨r, pc⟩ := t
  cases r with
  | writer => simp [rmh, isR] at h
  | reader =>
    have hr : (4 ≤ pc ∧ pc ≤ 7) ∨ (13 ≤ pc ∧ pc ≤ 16) := by simpa [rmh, isR] using h
    have hc : pc = 4 ∨ pc = 5 ∨ pc = 6 ∨ pc = 7 ∨ pc = 13 ∨ pc = 14 ∨ pc = 15 ∨ pc = 16 := by omega
    rcases hc with rfl | rfl | rfl | rfl | rfl | rfl | rfl | rfl <;> simp_all [bd]

theorem wmh_blocked (s : State) (t : Thread) (h : wmh t = true) (hb : bd s t = true) :
    t = ⟨.writer, 4⟩ ∧ s.nr = true := by
  obtain ⟨r, pc⟩ := t
  cases r with
  | reader => simp [wmh, isW] at h
  | writer =>
    have hr : (2 ≤ pc ∧ pc ≤ 5) ∨ (11 ≤ pc ∧ pc ≤ 14) := by simpa [wmh, isW] using h
    have hc : pc = 2 ∨ pc = 3 ∨ pc = 4 ∨ pc = 5 ∨ pc = 11 ∨ pc = 12 ∨ pc = 13 ∨ pc = 14 := by omega
    rcases hc with rfl | rfl | rfl | rfl | rfl | rfl | rfl | rfl <;> simp_all [bd]

theorem won_blocked (s : State) (hnw : s.nw = false) (t : Thread) (h : won t = true) (hb : bd s t = true) :
    t = ⟨.writer, 10⟩ ∧ s.wm = true := by
  obtain ⟨r, pc⟩ := t
  cases r with
  | reader => simp [won, isW] at h
  | writer =>
    have hr : 5 ≤ pc ∧ pc ≤ 13 := by simpa [won, isW] using h
    have hc : pc = 5 ∨ pc = 6 ∨ pc = 7 ∨ pc = 8 ∨ pc = 9 ∨ pc = 10 ∨ pc = 11 ∨ pc = 12 ∨ pc = 13 := by omega
    rcases hc with rfl | rfl | rfl | rfl | rfl | rfl | rfl | rfl | rfl <;> simp_all [bd]

theorem free_unfinished (s : State) (h1 : s.nw = false) (h2 : s.rm = false) (h3 : s.wm = false) (h4 : s.nr = false)
    (h5 : s.rq = false) (t : Thread) (hu : unfinished t = true) : bd s t = false := by
  obtain ⟨r, pc⟩ := t
  cases r with
  | reader =>
    have hlt : pc < 17 := by
      have : decide (pc < 17) = true := hu
      exact of_decide_eq_true this
    simp [bd, h1, h2, h4, h5]; omega
  | writer =>
    have hlt : pc < 15 := by
      have : decide (pc < 15) = true := hu
      exact of_decide_eq_true this
    simp [bd, h1, h3, h4]; omega

/-- C20 (lock, liveness): no reachable state of any number of readers and writers is a deadlock - as long as some
thread has not finished, some thread can execute its next line -/
theorem no_deadlock (ts : List Role) (s : State) (hr : Reachable ts s)
    (hnf : ∃ i, ∃ hi : i < s.threads.length, unfinished s.threads[i] = true) :
    ∃ i, (step s i).isSome = true := by
  have inv := inv_reachable ts s hr
  apply Classical.byContradiction
  intro hno
  have stuck : ∀ i (hi : i < s.threads.length), bd s s.threads[i] = true := by
    intro i hi
    cases hb : bd s s.threads[i] with
    | true => rfl
    | false => exact absurd ⟨i, step_some_of_not_bd s i hi hb⟩ hno
  have e_nw := inv.nw_eq
  have e_rm := inv.rm_eq
  have e_wm := inv.wm_eq
  have e_nr := inv.nr_eq
  have e_rq := inv.rq_eq
  cases hnw : s.nw with
  | true =>
    simp only [hnw, Bool.toNat_true] at e_nw
    by_cases hw : 0 < cnt wh s
    · exact contra_of wh s stuck hw (by bdt [])
    · have hrin : 0 < cnt rin s := by omega
      obtain ⟨i, hi, hPi⟩ := exists_of_cnt_pos rin s hrin
      have hbi := stuck i hi
      -- a reader inside the switch is blocked only at line 12, by the switch mutex
      have h12 := rin_blocked s _ hPi hbi
      have hrm1 : cnt rmh s = 1 := by simpa [h12.2] using e_rm.symm
      obtain ⟨j, hj, hPj⟩ := exists_of_cnt_pos rmh s (by omega)
      have hbj := stuck j hj
      have h6 := (rmh_blocked s _ hPj hbj).1
      have hrc := inv.s6 (countP_pos_of_mem at6 s.threads j hj (by rw [h6]; decide))
      have hij : i ≠ j := by
        intro he; subst he; rw [h12.1] at h6; cases h6
      have := two_le_cnt cntd s i j hi hj hij (by rw [h12.1]; decide) (by rw [h6]; decide)
      have := inv.rc_eq
      omega
  | false =>
    simp only [hnw, Bool.toNat_false] at e_nw
    -- the read switch mutex is free
    have hrm : s.rm = false := by
      cases hrm : s.rm with
      | false => rfl
      | true =>
        exfalso
        simp only [hrm, Bool.toNat_true] at e_rm
        exact contra_of rmh s stuck (by omega) (by bdt [hnw])
    simp only [hrm, Bool.toNat_false] at e_rm
    -- the write switch mutex is free
    have hwm : s.wm = false := by
      cases hwm : s.wm with
      | false => rfl
      | true =>
        exfalso
        simp only [hwm, Bool.toNat_true] at e_wm
        obtain ⟨j, hj, hPj⟩ := exists_of_cnt_pos wmh s (by omega)
        have hbj := stuck j hj
        have h4 := wmh_blocked s _ hPj hbj
        have hwc := inv.s4 (countP_pos_of_mem at4w s.threads j hj (by rw [h4.1]; decide))
        simp only [h4.2, Bool.toNat_true] at e_nr
        by_cases hn : 0 < cnt nrh s
        · exact contra_of nrh s stuck hn (by bdt [hnw, hrm])
        · have hwon : 0 < cnt won s := by omega
          obtain ⟨k, hk, hPk⟩ := exists_of_cnt_pos won s hwon
          have hbk := stuck k hk
          have h10 := (won_blocked s hnw _ hPk hbk).1
          have hjk : j ≠ k := by
            intro he; subst he; rw [h4.1] at h10; cases h10
          have := two_le_cnt wcn s j k hj hk hjk (by rw [h4.1]; decide) (by rw [h10]; decide)
          have := inv.wc_eq
          omega
    simp only [hwm, Bool.toNat_false] at e_wm
    -- `no_readers` is free
    have hnr : s.nr = false := by
      cases hnr : s.nr with
      | false => rfl
      | true =>
        exfalso
        simp only [hnr, Bool.toNat_true] at e_nr
        by_cases hn : 0 < cnt nrh s
        · exact contra_of nrh s stuck hn (by bdt [hnw, hrm])
        · exact contra_of won s stuck (by omega) (by bdt [hnw, hwm])
    -- `readers_queue` is free
    have hrq : s.rq = false := by
      cases hrq : s.rq with
      | false => rfl
      | true =>
        exfalso
        simp only [hrq, Bool.toNat_true] at e_rq
        exact contra_of rqh s stuck (by omega) (by bdt [hnw, hrm, hnr])
    -- every mutex is free: an unfinished thread can move
    obtain ⟨i, hi, hfi⟩ := hnf
    have hbi := stuck i hi
    rw [free_unfinished s hnw hrm hwm hnr hrq _ hfi] at hbi
    cases hbi

end Bec2Verif.RwLock
