import Bec2Verif.Model.Ec
/-!
The rest of the short-Weierstrass layer of the bundled python-ecdsa, on top of `Model/Ec.lean`:

* `PointJacobi` objects with their order and generator flag: `__mul__` (table or NAF), `__add__`, `mul_add`
  (`ellipticcurve.py:932-1061`), `__eq__`;
* the affine `Point` class (`ellipticcurve.py:1069-1265`): `__add__`, `double`, `__neg__`, `__mul__` with the
  `assert contains_point` of its constructor;
* public-key validation (`ecdsa.py:141-173`, `keys.py:141-183`) and the ECDH shared secret (`ecdh.py:77-96,307-330`).
-/
namespace Bec2Verif.Ec

/-- a `PointJacobi` object: coordinates, `__order` (0 = None) and the generator flag -/
structure PJ where
  X : Int
  Y : Int
  Z : Int
  order : Int
  gen : Bool
  deriving DecidableEq, Repr

def PJ.pt (P : PJ) : Pt := .jac P.X P.Y P.Z

/-- `self * k`: the precomputed table is used exactly when the point is a generator (the table is never empty) -/
def pjMul (c : Curve) (P : PJ) (k : Int) : Option Pt :=
  if P.gen then mulGen c P.order P.pt k else mulNaf c P.order P.pt k

def negT (t : Triple) : Triple := (t.1, -t.2.1, t.2.2)

/-- the `for A, B in zip(self_naf, other_naf)` loop of `mul_add` -/
def mulAddLoop (c : Curve) (P1 P2 mAmB pAmB mApB pApB : Triple) : List (Int × Int) → Triple → Triple
  | [], acc => acc
  | (A, B) :: rest, (X3, Y3, Z3) =>
    let d := double_ X3 Y3 Z3 c.p c.a
    let addT (t : Triple) : Triple := add_ d.1 d.2.1 d.2.2 t.1 t.2.1 t.2.2 c.p c.a
    let acc :=
      if A == 0 then (if B == 0 then d else if B < 0 then addT (negT P2) else addT P2)
      else if A < 0 then (if B == 0 then addT (negT P1) else if B < 0 then addT mAmB else addT mApB)
      else (if B == 0 then addT P1 else if B < 0 then addT pAmB else addT pApB)
    mulAddLoop c P1 P2 mAmB pAmB mApB pApB rest acc

/-- left-pad the shorter digit list with zeros -/
def padZip (a b : List Int) : List (Int × Int) :=
  let la := a.length
  let lb := b.length
  (List.replicate (lb - la) 0 ++ a).zip (List.replicate (la - lb) 0 ++ b)

/-- `optAdd`: `x + y` on results that may have failed -/
def optAdd (c : Curve) (x y : Option Pt) : Option Pt :=
  match x, y with
  | some a, some b => some (add c a b)
  | _, _ => none

/-- `self.mul_add(self_mul, other, other_mul)` for two `PointJacobi` objects (`other = none`: INFINITY) -/
def mulAdd (c : Curve) (P : PJ) (k1 : Int) (Q : Option PJ) (k2 : Int) : Option Pt :=
  match Q with
  | none => pjMul c P k1
  | some Q =>
    if isInf Q.pt || k2 == 0 then pjMul c P k1 else
    if k1 == 0 then pjMul c Q k2 else
    if P.gen && Q.gen then optAdd c (pjMul c P k1) (pjMul c Q k2) else
    let k1 := if P.order != 0 then k1 % P.order else k1
    let k2 := if P.order != 0 then k2 % P.order else k2
    match scale c P.X P.Y P.Z, scale c Q.X Q.Y Q.Z with
    | some P1, some P2 =>
      let ad (s t : Triple) : Triple := add_ s.1 s.2.1 s.2.2 t.1 t.2.1 t.2.2 c.p c.a
      let mAmB := ad (negT P1) (negT P2)
      let pAmB := ad P1 (negT P2)
      let mApB := ad (negT P1) P2
      let pApB := ad P1 P2
      if pApB.2.1 == 0 || pApB.2.2 == 0 then
        -- the operands were scaled in place before the fallback
        optAdd c (pjMul c { P with X := P1.1, Y := P1.2.1, Z := P1.2.2 } k1)
                 (pjMul c { Q with X := P2.1, Y := P2.2.1, Z := P2.2.2 } k2)
      else
        let digits := padZip (nafOf k1).reverse (nafOf k2).reverse
        some (wrap (mulAddLoop c P1 P2 mAmB pAmB mApB pApB digits (0, 0, 1)))
    | _, _ => none

/-- `PointJacobi.__eq__` between two Jacobian points of the same curve -/
def pjEq (c : Curve) (P Q : Pt) : Bool :=
  match P, Q with
  | .inf, .inf => true
  | .inf, q => isInf q
  | p, .inf => isInf p
  | .jac x1 y1 z1, .jac x2 y2 z2 =>
    let zz1 := z1 * z1 % c.p
    let zz2 := z2 * z2 % c.p
    (x1 * zz2 - x2 * zz1) % c.p == 0 && (y1 * zz2 * z2 - y2 * zz1 * z1) % c.p == 0

/-! ### the affine `Point` class -/

inductive APt where
  | inf
  | pt (x y : Int)
  deriving DecidableEq, Repr

/-- `Point(curve, x, y)`: `assert curve.contains_point(x, y)` -/
def mkPoint (c : Curve) (x y : Int) : Except Err APt :=
  if containsPoint c x y then .ok (.pt x y) else .error .assertionError

/-- `inverse_mod` inside the affine formulas: `pow` raises ValueError for a non-invertible value -/
def invOrErr (a m : Int) : Except Err Int :=
  match inverseMod a m with
  | some v => .ok v
  | none => .error .valueError

/-- `Point.double` -/
def aDouble (c : Curve) : APt → Except Err APt
  | .inf => .ok .inf
  | .pt x y => do
    let i ← invOrErr (2 * y) c.p
    let l := (3 * x * x + c.a) * i % c.p
    let x3 := (l * l - 2 * x) % c.p
    let y3 := (l * (x - x3) - y) % c.p
    mkPoint c x3 y3

/-- `Point.__add__` -/
def aAdd (c : Curve) (P Q : APt) : Except Err APt :=
  match P, Q with
  | p, .inf => .ok p
  | .inf, q => .ok q
  | .pt x1 y1, .pt x2 y2 =>
    if x1 == x2 then
      if (y1 + y2) % c.p == 0 then .ok .inf else aDouble c (.pt x1 y1)
    else do
      let i ← invOrErr (x2 - x1) c.p
      let l := (y2 - y1) * i % c.p
      let x3 := (l * l - x1 - x2) % c.p
      let y3 := (l * (x1 - x3) - y1) % c.p
      mkPoint c x3 y3

/-- `Point.__neg__`: `Point(curve, x, p - y)` -/
def aNeg (c : Curve) : APt → Except Err APt
  | .inf => .error .attributeError        -- `self.__curve.p()` on INFINITY (curve is None)
  | .pt x y => mkPoint c x (c.p - y)

/-- `leftmost_bit(x)`: the largest power of two `≤ x` (x > 0) -/
def leftmostBit (x : Nat) : Nat := 2 ^ x.log2

/-- the `while i > 1` loop of `Point.__mul__` -/
def aMulLoop (c : Curve) (self negSelf : APt) (e3 e : Nat) : Nat → Nat → APt → Except Err APt
  | 0, _, r => .ok r
  | fuel+1, i, r =>
    if i ≤ 1 then .ok r else do
      let r ← aDouble c r
      let r ← if (e3 / i) % 2 == 1 && (e / i) % 2 == 0 then aAdd c r self else pure r
      let r ← if (e3 / i) % 2 == 0 && (e / i) % 2 == 1 then aAdd c r negSelf else pure r
      aMulLoop c self negSelf e3 e fuel (i / 2) r

/-- `Point.__mul__` (`order` = the point's `__order`, 0 for None) -/
def aMul (c : Curve) (order : Int) (P : APt) (e : Int) : Except Err APt :=
  if e == 0 || (order != 0 && e % order == 0) then .ok .inf else
  match P with
  | .inf => .ok .inf
  | .pt x y =>
    let go (x y : Int) (e : Nat) : Except Err APt := do
      let e3 := 3 * e
      let negSelf ← mkPoint c x (-y)
      let i := leftmostBit e3 / 2
      aMulLoop c (.pt x y) negSelf e3 e (e3.log2 + 2) i (.pt x y)
    if e < 0 then do
      -- `(-self) * (-e)`; the negated point carries no order
      let n ← aNeg c (.pt x y)
      match n with
      | .inf => .ok .inf
      | .pt nx ny => go nx ny (-e).toNat
    else go x y e.toNat

/-! ### key validation and ECDH -/

structure Domain where
  curve : Curve
  gx : Int
  gy : Int
  n : Int
  h : Int
  deriving Repr

def Domain.G (d : Domain) : PJ := { X := d.gx, Y := d.gy, Z := 1, order := d.n, gen := true }

/-- `Public_key(generator, point, verify=True)` for an affine candidate `(x, y)`:
range, curve equation, and for a cofactor ≠ 1 the order check (`n * point == INFINITY`) -/
def validatePoint (d : Domain) (x y : Int) : Except Err Unit :=
  if !(0 ≤ x && x < d.curve.p) || !(0 ≤ y && y < d.curve.p) then .error .malformedPoint else
  if !containsPoint d.curve x y then .error .malformedPoint else
  if d.n == 0 then .error .malformedPoint else
  if d.h != 1 then
    match mulNaf d.curve 0 (.jac x y 1) d.n with
    | some r => if isInf r then .ok () else .error .malformedPoint
    | none => .error .valueError
  else .ok ()

/-- `ECDH._get_shared_secret`: `their_point * my_secret`, INFINITY rejected; the result is the affine x -/
def sharedSecret (d : Domain) (priv : Int) (x y : Int) : Except Err Int :=
  match mulNaf d.curve 0 (.jac x y 1) priv with      -- a received public point carries no order
  | none => .error .valueError
  | some r =>
    if isInf r then .error .invalidSharedSecret else
    match toAffine d.curve r with
    | some (some xy) => .ok xy.1
    | _ => .error .valueError

end Bec2Verif.Ec
