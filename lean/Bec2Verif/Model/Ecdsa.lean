import Bec2Verif.Model.EcOps
import Bec2Verif.Model.PointCodec
/-!
Model of the ECDSA layer of the bundled python-ecdsa:
`Private_key.sign`, `Public_key.verifies` (`ecdsa.py:190-277`), digest truncation and the sign / verify methods of
`keys.py` that sit on them, the signature encoders / decoders of `util.py`, and the RFC 6979 nonce derivation of
`rfc6979.py` over a parametric hash function.
-/
namespace Bec2Verif.Ecdsa
open Bec2Verif Ec Der PointCodec

/-- `int.bit_length()` -/
def bitLength (n : Nat) : Nat := if n = 0 then 0 else n.log2 + 1

/-- affine x of a point object (`p1.x()`), `none` for INFINITY (AttributeError in the code) or a failed inversion -/
def xOf (c : Curve) (P : Pt) : Option Int :=
  match P with
  | .inf => none
  | .jac X Y Z => (affineXY c X Y Z).map (·.1)

/-- `Private_key.sign(hash, random_k)`: the nonce is blinded to a fixed bit length (`k + n` or `k + 2n`) -/
def sign (d : Domain) (secret hash randomK : Int) : Except Err (Int × Int) :=
  let n := d.n
  let k := randomK % n
  let ks := k + n
  let kt := ks + n
  let kk := if bitLength ks.toNat = bitLength n.toNat then kt else ks
  match pjMul d.curve d.G kk with
  | none => .error .valueError
  | some p1 =>
    match xOf d.curve p1 with
    | none => .error .typeError            -- `INFINITY.x()` is `None`, and `None % n` raises TypeError (nonce a multiple of n)
    | some x =>
      let r := x % n
      if r = 0 then .error .rsZero else
      match inverseMod k n with
      | none => .error .valueError
      | some ki =>
        let s := ki * (hash + (secret * r) % n) % n
        if s = 0 then .error .rsZero else .ok (r, s)

/-- `Public_key.verifies(hash, signature)`; `Q` is the public point object -/
def verifies (d : Domain) (Q : PJ) (hash r s : Int) : Except Err Bool :=
  let n := d.n
  if r < 1 || r > n - 1 then .ok false else
  if s < 1 || s > n - 1 then .ok false else
  match inverseMod s n with
  | none => .error .valueError
  | some c =>
    let u1 := hash * c % n
    let u2 := r * c % n
    match mulAdd d.curve d.G u1 (some Q) u2 with
    | none => .error .valueError
    | some xy =>
      if isInf xy then .ok false else           -- after the repair: the point at infinity is not a valid signature
      match xOf d.curve xy with
      | none => .error .valueError
      | some x => .ok (x % n == r)

/-- `_truncate_and_convert_digest(digest, curve, allow_truncate)` -/
def truncateDigest (digest : Bytes) (baselen : Nat) (order : Nat) (allow : Bool) : Except Err Nat :=
  if !allow then
    if digest.length > baselen then .error .badDigest
    else if digest.isEmpty then .error .valueError            -- `int(hexlify(b""), 16)`
    else .ok (fromBE digest)
  else
    let dg := digest.take baselen
    if dg.isEmpty then .error .valueError else
    .ok (fromBE dg >>> (dg.length * 8 - bitLength order))

/-! ### signature encodings -/

/-- `sigencode_string` -/
def sigencodeString (r s order : Nat) : Except Err Bytes := do
  let rs ← numberToString r order
  let ss ← numberToString s order
  pure (rs ++ ss)

/-- `sigencode_der` -/
def sigencodeDer (r s : Nat) : Bytes := encodeSequence [encodeInteger r, encodeInteger s]

/-- the `_canonize` variants: `if s > order / 2: s = order - s` (true division) -/
def canonS (s order : Nat) : Nat := if 2 * s > order then order - s else s

/-- `sigdecode_string` -/
def sigdecodeString (sig : Bytes) (order : Nat) : Except Err (Nat × Nat) :=
  let l := orderlen order
  if sig.length ≠ 2 * l then .error .malformedSignature
  else .ok (fromBE (sig.take l), fromBE (sig.drop l))

/-- `sigdecode_der` -/
def sigdecodeDer (sig : Bytes) : Except Err (Nat × Nat) :=
  removeSequence sig >>= fun (rs, empty) =>
  if !empty.isEmpty then .error .unexpectedDER else
  removeInteger rs >>= fun (r, rest) =>
  removeInteger rest >>= fun (s, e2) =>
  if !e2.isEmpty then .error .unexpectedDER else .ok (r, s)

/-- `VerifyingKey.verify_digest` for the DER / string decoders: decoding errors become `BadSignatureError` -/
def verifyDigest (d : Domain) (Q : PJ) (baselen : Nat) (sig digest : Bytes) (derEnc allow : Bool) : Except Err Bool := do
  let number ← truncateDigest digest baselen d.n.toNat allow
  let (r, s) ← match (if derEnc then sigdecodeDer sig else sigdecodeString sig d.n.toNat) with
    | .ok v => pure v
    | .error _ => throw Err.badSignature
  let ok ← verifies d Q number r s
  if ok then pure true else throw Err.badSignature

/-! ### RFC 6979 -/

/-- a hash function as `hmac` needs it -/
structure Hash where
  digest : Bytes → Bytes
  blockSize : Nat
  digestSize : Nat

/-- `hmac.new(key, msg, digestmod).digest()` -/
def hmac (H : Hash) (key msg : Bytes) : Bytes :=
  let k0 := if key.length > H.blockSize then H.digest key else key
  let k0 := k0 ++ zeros (H.blockSize - k0.length)
  let ipad := k0.map (· ^^^ 0x36)
  let opad := k0.map (· ^^^ 0x5C)
  H.digest (opad ++ H.digest (ipad ++ msg))

/-- `bits2int(data, qlen)` -/
def bits2int (data : Bytes) (qlen : Nat) : Nat :=
  let x := fromBE data
  let l := data.length * 8
  if l > qlen then x >>> (l - qlen) else x

/-- `number_to_string_crop(num, order)`: left-padded to the order length, cropped on the right when longer -/
def numberToStringCrop (num order : Nat) : Bytes :=
  let l := orderlen order
  let full := if num < 256 ^ l then toBE l num else beBytes num
  full.take l

/-- `bits2octets(data, order)` -/
def bits2octets (data : Bytes) (order : Nat) : Bytes :=
  let z1 := bits2int data (bitLength order)
  let z2 := if z1 < order then z1 else z1 - order
  numberToStringCrop z2 order

/-- `while len(t) < rolen: v = HMAC(k, v); t += v` -/
def fillT (H : Hash) (k : Bytes) (rolen : Nat) : Nat → Bytes → Bytes → Bytes × Bytes
  | 0, v, t => (v, t)
  | f+1, v, t => if t.length < rolen then let v' := hmac H k v; fillT H k rolen f v' (t ++ v') else (v, t)

/-- the candidate loop of `generate_k` -/
def genLoop (H : Hash) (order qlen rolen : Nat) : Nat → Nat → Bytes → Bytes → Option Nat
  | 0, _, _, _ => none
  | fuel+1, retry, k, v =>
    let (v, t) := fillT H k rolen (rolen + 1) v []
    let secret := bits2int t qlen
    if 1 ≤ secret && secret < order then
      if retry = 0 then some secret
      else
        let k' := hmac H k (v ++ [0])
        genLoop H order qlen rolen fuel (retry - 1) k' (hmac H k' v)
    else
      let k' := hmac H k (v ++ [0])
      genLoop H order qlen rolen fuel retry k' (hmac H k' v)

/-- `generate_k(order, secexp, hash_func, data, retry_gen, extra_entropy)` -/
def generateK (H : Hash) (order secexp : Nat) (data : Bytes) (retry : Nat) (extra : Bytes) : Except Err Nat := do
  -- `int(hexlify(b""), 16)` in bits2int: ValueError for an empty digest (computed after number_to_string(secexp))
  let qlen := bitLength order
  let rolen := (qlen + 7) / 8
  let x ← numberToString secexp order
  if data.isEmpty then throw Err.valueError
  let bx := x ++ bits2octets data order ++ extra
  let v := List.replicate H.digestSize (1 : UInt8)
  let k := zeros H.digestSize
  let k := hmac H k (v ++ [0] ++ bx)
  let v := hmac H k v
  let k := hmac H k (v ++ [1] ++ bx)
  let v := hmac H k v
  match genLoop H order qlen rolen (retry + 1000) retry k v with
  | some s => pure s
  | none => throw Err.outOfFuel

end Bec2Verif.Ecdsa
