import Bec2Verif.Model.Bytes
/-!
PEM armour of python-ecdsa (`der.topem` / `der.unpem`) with the base64 codec of CPython it calls
(`base64.b64encode`, `base64.b64decode` = `binascii.a2b_base64` in its default, non-strict mode: characters outside the
alphabet are skipped, a sufficient run of `=` after at least two characters of a quad ends the decoding, an unfinished
quad is `binascii.Error`, a subclass of `ValueError`).  Import-free: compiled into the driver.
-/
namespace Bec2Verif.Pem
open Bec2Verif

/-- the base64 alphabet `A–Z a–z 0–9 + /` -/
def enc6 (i : Nat) : UInt8 :=
  UInt8.ofNat (if i < 26 then i + 65 else if i < 52 then i + 71 else if i < 62 then i - 4 else if i = 62 then 43 else 47)

/-- `table_a2b_base64`: the value of an alphabet character -/
def dec6 (c : UInt8) : Option Nat :=
  let n := c.toNat
  if 65 ≤ n ∧ n ≤ 90 then some (n - 65)
  else if 97 ≤ n ∧ n ≤ 122 then some (n - 71)
  else if 48 ≤ n ∧ n ≤ 57 then some (n + 4)
  else if n = 43 then some 62
  else if n = 47 then some 63
  else none

/-- `base64.b64encode` -/
def b64encode : Bytes → Bytes
  | [] => []
  | [a] => [enc6 (a.toNat / 4), enc6 (a.toNat % 4 * 16), 61, 61]
  | [a, b] => [enc6 (a.toNat / 4), enc6 (a.toNat % 4 * 16 + b.toNat / 16), enc6 (b.toNat % 16 * 4), 61]
  | a :: b :: c :: rest =>
    enc6 (a.toNat / 4) :: enc6 (a.toNat % 4 * 16 + b.toNat / 16) :: enc6 (b.toNat % 16 * 4 + c.toNat / 64) ::
      enc6 (c.toNat % 64) :: b64encode rest

/-- the decoder's loop state -/
structure DState where
  quad : Nat := 0
  left : Nat := 0
  pads : Nat := 0
  out : Bytes := []
  done : Bool := false

/-- one character of `binascii.a2b_base64(…, strict_mode=False)` -/
def dstep (s : DState) (c : UInt8) : DState :=
  if s.done then s else
  if c = 61 then
    if 2 ≤ s.quad then
      if 4 ≤ s.quad + (s.pads + 1) then { s with pads := s.pads + 1, done := true } else { s with pads := s.pads + 1 }
    else s
  else
    match dec6 c with
    | none => s
    | some v =>
      match s.quad with
      | 0 => { s with quad := 1, left := v, pads := 0 }
      | 1 => { s with quad := 2, left := v % 16, pads := 0, out := s.out ++ [UInt8.ofNat ((s.left * 4 + v / 16) % 256)] }
      | 2 => { s with quad := 3, left := v % 4, pads := 0, out := s.out ++ [UInt8.ofNat ((s.left * 16 + v / 4) % 256)] }
      | _ => { s with quad := 0, left := 0, pads := 0, out := s.out ++ [UInt8.ofNat ((s.left * 64 + v) % 256)] }

/-- how the decoder ends in state `s` -/
def dfinish (s : DState) : Except Err Bytes :=
  if s.done then .ok s.out else if s.quad != 0 then .error .valueError else .ok s.out

/-- `base64.b64decode(d)` (an unfinished quad raises `binascii.Error`, a `ValueError`) -/
def b64decode (d : Bytes) : Except Err Bytes := dfinish (d.foldl dstep {})

/-- `bytes.split(b"\n")` -/
def splitNl : Bytes → List Bytes
  | [] => [[]]
  | c :: cs =>
    if c = 10 then [] :: splitNl cs
    else match splitNl cs with
      | [] => [[c]]
      | l :: ls => (c :: l) :: ls

/-- ASCII whitespace as `bytes.strip()` sees it -/
def isWs (c : UInt8) : Bool := c = 32 || c = 9 || c = 10 || c = 13 || c = 11 || c = 12

/-- `bytes.strip()` -/
def strip (l : Bytes) : Bytes := ((l.dropWhile isWs).reverse.dropWhile isWs).reverse

def dashes : Bytes := [45, 45, 45, 45, 45]

/-- `der.unpem(pem)` for a bytes argument -/
def unpem (pem : Bytes) : Except Err Bytes :=
  b64decode (((splitNl pem).filter (fun l => !l.isEmpty && !dashes.isPrefixOf l)).map strip).flatten

/-- `[b64[start : start + 64] for start in range(0, len(b64), 64)]` -/
def lines64 : Nat → Bytes → List Bytes
  | 0, _ => []
  | fuel+1, d => if d.isEmpty then [] else d.take 64 :: lines64 fuel (d.drop 64)

/-- `"-----BEGIN "` / `"-----END "` -/
def beginTxt : Bytes := dashes ++ [66, 69, 71, 73, 78, 32]
def endTxt : Bytes := dashes ++ [69, 78, 68, 32]

/-- `der.topem(der, name)`; `name` is the UTF-8 form of the label -/
def topem (der name : Bytes) : Bytes :=
  beginTxt ++ name ++ dashes ++ [10] ++
    ((lines64 ((b64encode der).length + 1) (b64encode der)).map (· ++ [10])).flatten ++
    endTxt ++ name ++ dashes ++ [10]

end Bec2Verif.Pem
