import Bec2Verif.Model.Der
import Bec2Verif.Gen.Curves
/-!
Model of the point and key encodings of the bundled python-ecdsa:
* `number_to_string` / `string_to_number` / `orderlen` (`util.py`),
* `AbstractPoint.to_bytes` / `from_bytes` for short-Weierstrass curves (`ellipticcurve.py:228-473`): raw, uncompressed,
  compressed (with `numbertheory.square_root_mod_prime`, `jacobi`, the polynomial arithmetic of the general branch),
  hybrid,
* the SubjectPublicKeyInfo of a named curve (`VerifyingKey.to_der` / `from_der`, `keys.py`), which for P-256 is the
  constant 27-byte header of `bec2format/crypto.py` followed by the raw key.
-/
namespace Bec2Verif.PointCodec
open Bec2Verif Der

/-- `orderlen(order)`: bytes needed for the hex form -/
def orderlen (order : Nat) : Nat := (beBytes order).length

/-- `number_to_string(num, order)`: fixed length; a number that is too large has more hex digits than `2l`:
an odd count makes `binascii.unhexlify` raise (`binascii.Error`, a ValueError), an even count fails the
`assert len(string) == l` -/
def numberToString (num order : Nat) : Except Err Bytes :=
  if num < 256 ^ orderlen order then .ok (toBE (orderlen order) num)
  else if (num.log2 / 4 + 1) % 2 = 1 then .error .valueError else .error .assertionError

/-! ### modular arithmetic used by the compressed form -/

/-- `pow(b, e, m)` by square and multiply -/
def powModAux : Nat → Nat → Nat → Nat → Nat → Nat
  | 0, _, _, _, acc => acc
  | fuel+1, b, e, m, acc =>
    if e = 0 then acc else
    powModAux fuel (b * b % m) (e / 2) m (if e % 2 = 1 then acc * b % m else acc)

def powMod (b e m : Nat) : Nat := powModAux (e.log2 + 2) (b % m) e m (1 % m)

/-- `jacobi(a, n)`; `none` = JacobiError -/
def stripTwos : Nat → Nat → Nat → Nat × Nat
  | 0, a, e => (a, e)
  | fuel+1, a, e => if a % 2 = 0 && a != 0 then stripTwos fuel (a / 2) (e + 1) else (a, e)

def jacobi : Nat → Nat → Nat → Option Int
  | 0, _, _ => none
  | fuel+1, a, n =>
    if n < 3 then none else
    if n % 2 != 1 then none else
    let a := a % n
    if a = 0 then some 0 else
    if a = 1 then some 1 else
    let (a1, e) := stripTwos (a.log2 + 2) a 0
    let s : Int := if e % 2 = 0 || n % 8 = 1 || n % 8 = 7 then 1 else -1
    if a1 = 1 then some s else
    let s := if n % 4 = 3 && a1 % 4 = 3 then -s else s
    match jacobi fuel (n % a1) a1 with
    | some j => some (s * j)
    | none => none

/-- polynomials as coefficient lists of increasing powers -/
def polyReduce (p : Nat) (polymod : List Nat) : Nat → List Nat → List Nat
  | 0, poly => poly
  | fuel+1, poly =>
    if poly.length ≥ polymod.length then
      let top := poly.getLast?.getD 0
      let poly :=
        if top != 0 then
          -- poly[-i] = (poly[-i] - poly[-1] * polymod[-i]) % p  for i = 2 .. len(polymod)
          (List.range poly.length).map (fun idx =>
            let fromEnd := poly.length - idx           -- i such that idx = len - i
            let c := poly.getD idx 0
            if 2 ≤ fromEnd && fromEnd ≤ polymod.length then
              let m := polymod.getD (polymod.length - fromEnd) 0
              ((c : Int) - (top : Int) * (m : Int)).emod (p : Int) |>.toNat
            else c)
        else poly
      polyReduce p polymod fuel poly.dropLast
    else poly

def polyMul (p : Nat) (m1 m2 polymod : List Nat) : List Nat :=
  let n := m1.length + m2.length - 1
  let prod := (List.range n).map (fun k =>
    ((List.range m1.length).foldl (fun acc i =>
      if i ≤ k && k - i < m2.length then (acc + m1.getD i 0 * m2.getD (k - i) 0) % p else acc) 0))
  polyReduce p polymod (n + 1) prod

def polyExpLoop (p : Nat) (polymod : List Nat) : Nat → Nat → List Nat → List Nat → List Nat
  | 0, _, _, s => s
  | fuel+1, k, G, s =>
    if k > 1 then
      let k := k / 2
      let G := polyMul p G G polymod
      let s := if k % 2 = 1 then polyMul p G s polymod else s
      polyExpLoop p polymod fuel k G s
    else s

def polyExp (p : Nat) (base : List Nat) (exponent : Nat) (polymod : List Nat) : List Nat :=
  if exponent = 0 then [1] else
  polyExpLoop p polymod (exponent.log2 + 2) exponent base (if exponent % 2 = 1 then base else [1])

/-- search of the general branch: the first `b ≥ 2` with `jacobi(b² - 4a, p) = -1` -/
def findB (a p : Nat) : Nat → Nat → Option Nat
  | 0, _ => none
  | fuel+1, b =>
    if b ≥ p then none else
    match jacobi ((p.log2 + 2) * 2) (((b * b : Int) - 4 * (a : Int)).emod (p : Int)).toNat p with
    | some (-1) => some b
    | _ => findB a p fuel (b + 1)

/-- `square_root_mod_prime(a, p)` for `0 ≤ a < p` (after the repair: a modulus that is not prime is a SquareRootError,
shown here as `none`) -/
def sqrtModPrime (a p : Nat) : Option Nat :=
  if p ≤ 1 then none else
  if a = 0 then some 0 else
  if p = 2 then some a else
  match jacobi ((p.log2 + 2) * 2) a p with
  | none => none            -- JacobiError is a numbertheory.Error
  | some (-1) => none
  | some _ =>
    if p % 4 = 3 then some (powMod a ((p + 1) / 4) p) else
    if p % 8 = 5 then
      let d := powMod a ((p - 1) / 4) p
      if d = 1 then some (powMod a ((p + 3) / 8) p)
      else if d = p - 1 then some (2 * a * powMod (4 * a) ((p - 5) / 8) p % p)
      else none
    else
      match findB a p 2000 2 with
      | none => none
      | some b =>
        let f : List Nat := [a, ((-(b : Int)).emod (p : Int)).toNat, 1]
        let ff := polyExp p [0, 1] ((p + 1) / 2) f
        if ff.getD 1 0 != 0 then none else some (ff.getD 0 0)

/-! ### point strings -/

inductive Enc where | raw | uncompressed | compressed | hybrid
  deriving DecidableEq, Repr

structure CurveParams where
  p : Nat
  a : Int
  b : Int
  deriving Repr

/-- `to_bytes(encoding)` of an affine point with `0 ≤ x, y` -/
def toBytes (c : CurveParams) (enc : Enc) (x y : Nat) : Except Err Bytes := do
  let xs ← numberToString x c.p
  match enc with
  | .compressed => pure ((if y % 2 = 1 then 0x03 else 0x02) :: xs)
  | _ =>
    let ys ← numberToString y c.p
    match enc with
    | .raw => pure (xs ++ ys)
    | .uncompressed => pure (0x04 :: (xs ++ ys))
    | _ => pure ((if y % 2 = 1 then 0x07 else 0x06) :: (xs ++ ys))

/-- `_from_compressed` -/
def fromCompressed (c : CurveParams) (data : Bytes) : Except Err (Nat × Nat) :=
  match data with
  | [] => .error .malformedPoint
  | t :: xs =>
    if t != 0x02 && t != 0x03 then .error .malformedPoint else
    let x := fromBE xs
    let alpha := (((x : Int) ^ 3 % (c.p : Int) + c.a * x + c.b).emod (c.p : Int)).toNat
    match sqrtModPrime alpha c.p with
    | none => .error .malformedPoint
    | some beta =>
      let isEven := t == 0x02
      .ok (x, if isEven == (beta % 2 == 1) then c.p - beta else beta)

/-- `from_bytes(curve, data, validate_encoding)` with all encodings enabled: the coordinates, not yet checked
against the curve equation -/
def fromBytes (c : CurveParams) (data : Bytes) (validate : Bool) : Except Err (Nat × Nat) :=
  let rl := 2 * orderlen c.p
  if data.length = rl then .ok (fromBE (data.take (rl / 2)), fromBE (data.drop (rl / 2)))
  else if data.length = rl + 1 then
    match data with
    | t :: body =>
      if t == 0x06 || t == 0x07 then
        let x := fromBE (body.take (rl / 2))
        let y := fromBE (body.drop (rl / 2))
        if validate && ((y % 2 = 1 && t != 0x07) || (y % 2 = 0 && t != 0x06)) then .error .malformedPoint
        else .ok (x, y)
      else if t == 0x04 then .ok (fromBE (body.take (rl / 2)), fromBE (body.drop (rl / 2)))
      else .error .malformedPoint
    | [] => .error .malformedPoint
  else if data.length = rl / 2 + 1 then fromCompressed c data
  else .error .malformedPoint

/-! ### SubjectPublicKeyInfo of a named curve -/

def oidEcPublicKey : List Nat := [1, 2, 840, 10045, 2, 1]

def encOid (o : List Nat) : Bytes :=
  match o with
  | f :: s :: rest => encodeOid f s rest
  | _ => []

/-- `VerifyingKey.to_der(point_encoding)` with named-curve parameters: `pointStr` is the encoded point -/
def spki (curveOid : List Nat) (pointStr : Bytes) : Bytes :=
  encodeSequence [encodeSequence [encOid oidEcPublicKey, encOid curveOid], encodeBitstring0 pointStr]

/-- `find_curve(oid)` among the short-Weierstrass curves: (oid, verifying_key_length) -/
def findCurve (oid : List Nat) : Option Gen.CurveRec := Gen.curves.find? (fun r => r.oid == oid)

/-- the DER part of `VerifyingKey.from_der` for named curves: (curve OID, point string) as handed to `from_string` -/
def parseSpki (s : Bytes) : Except Err (List Nat × Bytes) :=
  removeSequence s >>= fun (s1, empty) =>
  if !empty.isEmpty then .error .unexpectedDER else
  removeSequence s1 >>= fun (s2, pointBits) =>
  removeObject s2 >>= fun (oidPk, rest) =>
  if oidPk != oidEcPublicKey then .error .unexpectedDER else
  (if isSequence rest then .error .unexpectedDER     -- explicit parameters are not allowed in this entry (named_curve only)
   else removeObject rest >>= fun (oid, e2) => if !e2.isEmpty then .error .unexpectedDER else
     match findCurve oid with
     | some r => .ok r
     | none => .error .unknownCurve) >>= fun curve =>
  removeBitstring pointBits 0 >>= fun (pointStr, e3) =>
  if !e3.isEmpty then .error .unexpectedDER else
  if pointStr.length = curve.verifyingKeyLength then .error .unexpectedDER else .ok (curve.oid, pointStr)

end Bec2Verif.PointCodec
