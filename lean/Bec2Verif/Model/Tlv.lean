import Bec2Verif.Model.ConfigId
import Bec2Verif.Model.Bec2
/-!
Model of the configuration encoder (`conf_dict_to_list`, `conf_dict_to_tlv`, bf3file.py:36-103),
`set_config` (736-770), `derive_comments_from_config` (772-790) and
`derive_auth_blocks_from_config` (bec2file.py:523-542).
-/
namespace Bec2Verif.Tlv
open Bec2Verif Bec2Verif.ConfigId

/-- one entry `(key, value, content)` of `conf_list` -/
structure Entry where
  key : Nat
  value : Option Nat
  content : Option Bytes
  deriving DecidableEq, Repr

def isSet (e : Entry) : Bool := e.value.isSome && e.content.isSome

/-- tuple order on `(key, value)` (keys of a dict are unique, so the content is never compared) -/
def le (a b : Entry) : Bool :=
  a.key < b.key || (a.key == b.key && (match a.value, b.value with
    | some x, some y => x ≤ y
    | none, _ => true
    | some _, none => false))

def insertSorted (e : Entry) : List Entry → List Entry
  | [] => [e]
  | x :: xs => if le e x then e :: x :: xs else x :: insertSorted e xs

def sort : List Entry → List Entry
  | [] => []
  | x :: xs => insertSorted x (sort xs)

def entries (d : ConfDict) : List Entry := d.map fun ((k, v), c) => { key := k, value := v, content := c }

/-- `conf_dict_to_list`: deletions (sorted) first, then assignments (sorted).
Comparing `None` with an int raises TypeError: happens when a delete-key entry shares its key with
another deletion — outside the property's quantifier, reported as `typeError`. -/
def confDictToList (d : ConfDict) : Except Err (List Entry) :=
  let es := entries d
  let dels := es.filter (fun e => !isSet e)
  let sets := es.filter isSet
  if dels.any (fun a => a.value.isNone && dels.any (fun b => b.key == a.key && b.value.isSome)) then .error .typeError
  else .ok (sort dels ++ sort sets)

/-- `(preface, data, postface)` of one entry; `bytes([...])` raises ValueError for values ≥ 256 -/
def part (e : Entry) : Except Err (Bytes × Bytes × Bytes) :=
  if e.key ≥ 65536 then .error .valueError else
  let kb : Bytes := [UInt8.ofNat (e.key / 256), UInt8.ofNat (e.key % 256)]
  match e.value, e.content with
  | none, _ => .ok (0x02 :: kb, [], [])
  | some v, none => if v ≥ 256 then .error .valueError else .ok (0x01 :: kb, [UInt8.ofNat v, 0xFF], [0xFF])
  | some v, some c =>
    if v ≥ 256 || c.length ≥ 256 then .error .valueError
    else .ok (0x01 :: kb, [UInt8.ofNat v, UInt8.ofNat c.length] ++ c, [0xFF])

def parts : List Entry → Except Err (List (Bytes × Bytes × Bytes))
  | [] => .ok []
  | e :: es => do let p ← part e; let ps ← parts es; pure (p :: ps)

/-- merge state: closed blocks (in order), the open last block, `last_preface`, `last_postface` -/
structure MState where
  closed : List Bytes
  last : Bytes
  pre : Bytes
  post : Bytes
  deriving Repr

def mergeStep (s : MState) (p : Bytes × Bytes × Bytes) : MState :=
  let (pre, data, post) := p
  if (s.last ++ s.post ++ pre ++ data ++ post).length > Gen.MAX_TLVBLOCK_SIZE then
    { closed := s.closed ++ [s.last ++ s.post], last := pre ++ data, pre := pre, post := post }
  else if pre == s.pre && post == s.post then
    { s with last := s.last ++ data }
  else
    { s with last := s.last ++ s.post ++ pre ++ data, pre := pre, post := post }

def merge (ps : List (Bytes × Bytes × Bytes)) : List Bytes :=
  let s := ps.foldl mergeStep { closed := [], last := [], pre := [], post := [] }
  let blocks := s.closed ++ [s.last]
  -- `if len(tlv_blocks[0]) == 0: tlv_blocks.pop(0)`
  match blocks with
  | [] :: rest => rest
  | bs => bs

/-- `conf_dict_to_tlv` -/
def confDictToTlv (d : ConfDict) : Except Err (List Bytes) := do
  let l ← confDictToList d
  let ps ← parts l
  pure (merge ps)

/-- the blob of `set_config`: length-prefixed blocks closed by `00` -/
def blobOf : List Bytes → Except Err Bytes
  | [] => .ok [0]
  | b :: bs => do let l ← toBytesBE 1 b.length; let r ← blobOf bs; pure (l ++ b ++ r)

def configDesc : List (Nat × Bytes) :=
  [(Gen.BF3TAG_TYPE, [UInt8.ofNat Gen.BF3TYPE_CONFIGURATION]), (Gen.BF3TAG_ENC, [UInt8.ofNat Gen.BF3ENC_SESSIONKEY]),
   (Gen.BF3TAG_FMT, [UInt8.ofNat Gen.BF3FMT_TLVCFG]), (Gen.BF3TAG_REBOOT, [1])]

def isConfig (c : Bf3.Comp) : Bool := c.desc.lookup Gen.BF3TAG_TYPE == some [UInt8.ofNat Gen.BF3TYPE_CONFIGURATION]

/-- `del self.components[self._get_config_ndx()]`: the first configuration component, if any -/
def removeFirstConfig : List Bf3.Comp → List Bf3.Comp
  | [] => []
  | c :: cs => if isConfig c then cs else c :: removeFirstConfig cs

/-- `set_config(config, additional_tvl_blocks)` -/
def setConfig (comps : List Bf3.Comp) (d : ConfDict) (extra : List Bytes) : Except Err (List Bf3.Comp) := do
  let blocks ← confDictToTlv d
  let blob ← blobOf (blocks ++ extra)
  pure (removeFirstConfig comps ++ [{ desc := configDesc, blob := blob, actualLen := blob.length, enc := true }])

def dictSetS (d : List (Text.Str × Text.Str)) (k v : Text.Str) : List (Text.Str × Text.Str) := Text.dictSet d k v
def dictPop (d : List (Text.Str × Text.Str)) (k : Text.Str) : List (Text.Str × Text.Str) := d.filter (fun p => p.1 != k)

/-- `derive_comments_from_config` -/
def deriveComments (cm : List (Text.Str × Text.Str)) (d : ConfDict) : Except Err (List (Text.Str × Text.Str)) := do
  let cm ← match fromPrj d with
    | .ok i => pure (dictSetS cm "Configuration".toList (toStr i))
    | .error .missingPrjName => pure (dictPop cm "Configuration".toList)
    | .error e => throw e
  let cm ← match fromDev d with
    | .ok i => pure (dictSetS cm "DeviceSettings".toList (toStr i))
    | .error .missingDevName => pure (dictPop cm "DeviceSettings".toList)
    | .error e => throw e
  -- `config.get((0x0620, 0x20), 0)`: truthy = present with non-empty content
  let bus := match d.lookup (0x0620, some 0x20) with
    | some (some (_ :: _)) => true
    | _ => false
  pure (if bus then dictSetS cm "RequiresBusAddress".toList "Yes".toList else dictPop cm "RequiresBusAddress".toList)

/-- `add_auth_block`: `self.auth_blocks[block.tag] = block` -/
def addBlock (bs : List Bec2.AuthBlock) (b : Bec2.AuthBlock) : List Bec2.AuthBlock :=
  if bs.any (fun x => x.tag == b.tag) then bs.map (fun x => if x.tag == b.tag then b else x) else bs ++ [b]

/-- the identifier used for the update block: project settings win over device settings; `none` when neither names the configuration -/
def cidOf (d : ConfDict) : Except Err (Option Id) :=
  match fromPrj d with
  | .ok i => .ok (some i)
  | .error .missingPrjName => (match fromDev d with
    | .ok i => .ok (some i)
    | .error .missingDevName => .ok none
    | .error e => .error e)
  | .error e => .error e

/-- `derive_auth_blocks_from_config(config, cust_key_support)` -/
def deriveAuth (bs : List Bec2.AuthBlock) (d : ConfDict) (cust : Bool) : Except Err (List Bec2.AuthBlock) :=
  let bs := addBlock bs (if cust then .initCust else .initEcc 0)
  match cidOf d with
  | .error e => .error e
  | .ok cid =>
    match d.lookup (0x0202, some 0x82), cid with
    | some (some code), some i => .ok (addBlock bs (.update code i.version))
    | _, _ => .ok bs

end Bec2Verif.Tlv
