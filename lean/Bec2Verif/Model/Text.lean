import Bec2Verif.Model.Bytes
import Bec2Verif.Gen.Unicode
import Bec2Verif.Gen.Consts
/-!
Model of the BF3 text envelope: `write_bf3_format` (bf3file.py:334-352),
`parse_bf3_file` (454-479), `hex2bin` (20-24), on `List Char`.
Stream I/O is modelled as is; path I/O adds `toCRLF` on writing
(`open(..., "w", newline="\r\n")`) and `universalNewlines` on reading (`open(..., "r")`).
-/
namespace Bec2Verif.Text
open Bec2Verif

abbrev Str := List Char

def inRanges (rs : List (Nat × Nat)) (n : Nat) : Bool := rs.any fun (a, b) => a ≤ n && n ≤ b

/-- `str.isspace` of one character (regenerated table) -/
def isSpace (c : Char) : Bool := inRanges Gen.isspace_ranges c.toNat
/-- `\s` of `re` on `str` patterns -/
def isReSpace (c : Char) : Bool := inRanges Gen.re_space_ranges c.toNat

/-- `str.strip()` -/
def strip (s : Str) : Str := ((s.dropWhile isSpace).reverse.dropWhile isSpace).reverse

def hexDigitUpper (n : Nat) : Char := if n < 10 then Char.ofNat (48 + n) else Char.ofNat (55 + n)

/-- `bytes.hex().upper()` -/
def hexUpper (bs : Bytes) : Str := bs.flatMap fun b => [hexDigitUpper (b.toNat / 16), hexDigitUpper (b.toNat % 16)]

/-- the data lines: `for pos in range(0, len + 39, 40)` — one extra empty line at multiples of 40 -/
def hexLinesAux (w : Nat) : Nat → Bytes → Str
  | 0, _ => []
  | n+1, bs => hexUpper (bs.take w) ++ ['\n'] ++ hexLinesAux w n (bs.drop w)

def hexLines (raw : Bytes) : Str :=
  let w := Gen.END_OF_LINE / 2
  hexLinesAux w ((raw.length + (w - 1) + (w - 1)) / w) raw

/-- `write_bf3_format` to a stream -/
def writeText (comments : List (Str × Str)) (raw : Bytes) : Str :=
  (comments.flatMap fun (k, v) => k ++ [':', ' '] ++ v ++ ['\n']) ++ ['\n'] ++ hexLines raw

/-- text-mode file opened with `newline="\r\n"` -/
def toCRLF (s : Str) : Str := s.flatMap fun c => if c = '\n' then ['\r', '\n'] else [c]

/-- text-mode file opened for reading with universal newlines -/
def universalNewlines : Str → Str
  | [] => []
  | '\r' :: '\n' :: r => '\n' :: universalNewlines r
  | '\r' :: r => '\n' :: universalNewlines r
  | c :: r => c :: universalNewlines r

/-- `readline()`: up to and including the first `\n` -/
def readLine : Str → Str × Str
  | [] => ([], [])
  | c :: r => if c = '\n' then (['\n'], r) else let (l, rest) := readLine r; (c :: l, rest)

/-- `line.split(":", 1)` with exactly two results, else `none` (unpacking raises ValueError) -/
def splitColon : Str → Option (Str × Str)
  | [] => none
  | c :: r => if c = ':' then some ([], r) else (splitColon r).map fun (a, b) => (c :: a, b)

/-- `d[k] = v` on an insertion-ordered dict -/
def dictSet {α β : Type} [BEq α] : List (α × β) → α → β → List (α × β)
  | [], k, v => [(k, v)]
  | (k', v') :: r, k, v => if k' == k then (k', v) :: r else (k', v') :: dictSet r k v

def parseComments : Nat → Str → List (Str × Str) → Except Err (List (Str × Str) × Str)
  | 0, _, _ => .error .outOfFuel     -- unreachable: fuel = text length + 1 (C14: `parseText_total`)
  | fuel+1, s, acc =>
    let (line, rest) := readLine s
    if line = ['\n'] then .ok (acc, rest)
    else match splitColon line with
      | none => .error .formatBf3
      | some (k, v) => parseComments fuel rest (dictSet acc k (strip v))

def hexVal (c : Char) : Option Nat :=
  if '0' ≤ c ∧ c ≤ '9' then some (c.toNat - 48)
  else if 'a' ≤ c ∧ c ≤ 'f' then some (c.toNat - 87)
  else if 'A' ≤ c ∧ c ≤ 'F' then some (c.toNat - 55)
  else none

/-- `binascii.unhexlify` on an even number of characters; `binascii.Error ⊂ ValueError` -/
def unhexlify : Str → Except Err Bytes
  | [] => .ok []
  | [_] => .error .valueError
  | a :: b :: r =>
    match hexVal a, hexVal b with
    | some x, some y => do let rest ← unhexlify r; pure (UInt8.ofNat (x * 16 + y) :: rest)
    | _, _ => .error .valueError

/-- the character class removed by `hex2bin`: whitespace, the range comma..slash (`,` `-` `.` `/`) and the colon -/
def isHexNoise (c : Char) : Bool := isReSpace c || (',' ≤ c && c ≤ '/') || c == ':'

/-- `hex2bin`: ValueError for anything `unhexlify` rejects -/
def hex2bin (s : Str) : Except Err Bytes :=
  let clean := s.filter (fun c => !isHexNoise c)
  let clean := if clean.length % 2 = 1 then clean.dropLast ++ ['0'] ++ [clean.getLast?.getD '0'] else clean
  unhexlify clean

/-- `parse_bf3_file` on a stream: both ValueErrors become the format error -/
def parseText (s : Str) : Except Err (List (Str × Str) × Bytes) := do
  let (comments, rest) ← parseComments (s.length + 1) s []
  match hex2bin rest with
  | .ok b => pure (comments, b)
  | .error _ => throw Err.formatBf3

end Bec2Verif.Text
