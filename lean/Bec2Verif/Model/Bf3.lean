import Bec2Verif.Model.Crypto
import Bec2Verif.Gen.Consts
/-!
Model of the BF3 container: `Bf3Component.get_raw_data`, `Bf3File.dir_to_binary`,
`to_binary` (bf3file.py:276-332) and the reader `dir_from_binary`, `from_binary`
(bf3file.py:363-452) over `BytesReader` (bytes_reader.py).

The reader is written in functional style: `take n` returns the bytes read and
the rest, and raises the reader's `ValueError` on a short read
(bytes_reader.py `read`).  `pos` is the absolute position `raw_rdr.tell()`.
-/
namespace Bec2Verif.Bf3
open Bec2Verif

/-- `Bf3Component`; `desc` is the insertion-ordered `description` dict -/
structure Comp where
  desc : List (Nat × Bytes)
  blob : Bytes
  actualLen : Nat
  enc : Bool
  deriving DecidableEq, Repr, Inhabited

/-- `Bf3Component.__init__`: `actual_len or len(blob)` -/
def mkComp (desc : List (Nat × Bytes)) (blob : Bytes) (actual : Option Nat) (enc : Bool) : Comp :=
  { desc := desc, blob := blob, enc := enc,
    actualLen := match actual with
      | some 0 => blob.length
      | some n => n
      | none => blob.length }

def defaultKey : Bytes := Gen.DEFAULT_SESSION_KEY
def sessionKeyEnc : Bytes := [UInt8.ofNat Gen.BF3ENC_SESSIONKEY]

/-- `get_raw_data` -/
def getRawData (C : Crypto) (key : Bytes) (c : Comp) : Except Err Bytes :=
  if !c.enc then .ok c.blob else C.encrypt key none (zeroPad c.blob)

/-- `cmac(data, key, iv)` -/
def cmac (C : Crypto) (data key : Bytes) (iv : Option Bytes) : Except Err Bytes := C.mac key iv data

/-- the tag list of one directory entry -/
def tlvEntries : List (Nat × Bytes) → Except Err Bytes
  | [] => .ok []
  | (t, v) :: r => do
    let tb ← toBytesBE 1 t
    let lb ← toBytesBE 1 v.length
    let rest ← tlvEntries r
    pure (tb ++ lb ++ v ++ rest)

/-- one directory entry without its length byte -/
def dirEntry (C : Crypto) (key : Bytes) (c : Comp) (ndx adr : Nat) : Except Err (Bytes × Nat) := do
  let raw ← getRawData C key c
  let pm ← cmac C raw key none
  let a ← toBytesBE 4 adr
  let l ← toBytesBE 4 raw.length
  let al ← toBytesBE 4 c.actualLen
  let tl ← tlvEntries c.desc
  let dl ← toBytesBE 1 tl.length
  let e0 := a ++ l ++ al ++ pm ++ dl ++ tl
  let em ← cmac C e0 key (some (toBE Gen.CMAC_SIZE (1 + ndx)))
  pure (e0 ++ em, raw.length)

def dirEntries (C : Crypto) (key : Bytes) : List Comp → Nat → Nat → Except Err Bytes
  | [], _, _ => .ok []
  | c :: cs, ndx, adr => do
    let (e, rawLen) ← dirEntry C key c ndx adr
    let el ← toBytesBE 1 e.length
    let rest ← dirEntries C key cs (ndx + 1) (adr + rawLen)
    pure (el ++ e ++ rest)

/-- `dir_to_binary(next_blob_adr, session_key)` -/
def dirToBinary (C : Crypto) (key : Bytes) (comps : List Comp) (adr : Nat) : Except Err Bytes := do
  let es ← dirEntries C key comps 0 adr
  let directory := es ++ [0]
  let len ← toBytesBE 4 directory.length
  pure (len ++ directory)

def rawDatas (C : Crypto) (key : Bytes) : List Comp → Except Err Bytes
  | [] => .ok []
  | c :: cs => do
    let r ← getRawData C key c
    let rest ← rawDatas C key cs
    pure (r ++ rest)

/-- `to_binary(offset, session_key)`: size pass with the default key, then the real pass -/
def toBinary (C : Crypto) (comps : List Comp) (off : Nat) (key : Bytes) : Except Err Bytes := do
  let d0 ← dirToBinary C defaultKey comps 0
  let rawDir ← dirToBinary C key comps (off + d0.length)
  let raws ← rawDatas C key comps
  pure (rawDir ++ raws)

/-! ### reader -/

/-- `BytesReader.read(n)`, n ≥ 0: short data raises the reader's exception (ValueError) -/
def take (n : Nat) (bs : Bytes) : Except Err (Bytes × Bytes) :=
  if n ≤ bs.length then .ok (bs.take n, bs.drop n) else .error .valueError

def readInt (n : Nat) (bs : Bytes) : Except Err (Nat × Bytes) := do
  let (a, r) ← take n bs
  pure (fromBE a, r)

/-- `ensure_eof` -/
def ensureEof (bs : Bytes) : Except Err Unit :=
  if bs.isEmpty then .ok () else .error .valueError

/-- the `while not description_rdr.eof()` loop; `acc` is the dict built so far -/
def parseDesc : Nat → Bytes → List (Nat × Bytes) → Except Err (List (Nat × Bytes))
  | 0, _, acc => .ok acc
  | fuel+1, bs, acc =>
    if bs.isEmpty then .ok acc else do
      let (tag, r1) ← readInt 1 bs
      let (len, r2) ← readInt 1 r1
      let (val, r3) ← take len r2
      if acc.any (fun p => p.1 == tag) then throw Err.formatBf3
      parseDesc fuel r3 (acc ++ [(tag, val)])

structure Entry where
  adr : Nat
  total : Nat
  declared : Nat
  pmac : Bytes
  desc : List (Nat × Bytes)
  deriving DecidableEq, Repr

/-- the body of the `while dir_entry_len != 0` loop for one entry (`e` = the entry bytes) -/
def parseEntry (C : Crypto) (chk : Bool) (key : Bytes) (ndx : Nat) (e : Bytes) : Except Err (Entry × Bytes) := do
  let (adr, r1) ← readInt 4 e
  let (total, r2) ← readInt 4 r1
  let (declared, r3) ← readInt 4 r2
  if total < declared then throw Err.formatBf3
  let (pmac, r4) ← take Gen.CMAC_SIZE r3
  let (dlen, r5) ← readInt 1 r4
  let (dbytes, r6) ← take dlen r5
  let desc ← parseDesc dbytes.length dbytes []
  let (stored, r7) ← take Gen.CMAC_SIZE r6
  if chk then
    let actual ← cmac C (e.take (e.length - Gen.CMAC_SIZE)) key (some (toBE Gen.CMAC_SIZE ndx))
    if stored != actual then throw Err.formatBf3
  pure ({ adr := adr, total := total, declared := declared, pmac := pmac, desc := desc }, r7)

/-- the entry loop over the directory bytes; `len` is the length byte already read -/
def parseEntries (C : Crypto) (chk : Bool) (key : Bytes) :
    Nat → Nat → Nat → Bytes → Except Err (List Entry)
  | 0, _, _, _ => .error .outOfFuel   -- unreachable: fuel = directory length + 1 (C14: `fromBinary_total`)
  | fuel+1, ndx, len, dir =>
    if len = 0 then do
      ensureEof dir
      pure []
    else do
      let (e, r) ← take len dir
      let (entry, erest) ← parseEntry C chk key ndx e
      let (len', r') ← readInt 1 r
      ensureEof erest
      let rest ← parseEntries C chk key fuel (ndx + 1) len' r'
      pure (entry :: rest)

/-- `dir_from_binary`: returns the entries and the rest of the stream -/
def dirFromBinary (C : Crypto) (chk : Bool) (key : Bytes) (bs : Bytes) :
    Except Err (List Entry × Bytes × Nat) := do
  let (size, r1) ← readInt 4 bs
  let (dir, r2) ← take size r1
  let (len, d1) ← readInt 1 dir
  let es ← parseEntries C chk key (dir.length + 1) 1 len d1
  pure (es, r2, 4 + size)

/-- the component loop of `from_binary`; `pos` = `raw_rdr.tell()` -/
def readComps (C : Crypto) (chk : Bool) (key : Bytes) : List Entry → Nat → Bytes → Except Err (List Comp × Bytes)
  | [], _, bs => .ok ([], bs)
  | e :: es, pos, bs => do
    if e.adr != pos then throw Err.formatBf3
    let (payload, r) ← take e.total bs
    if chk then
      let m ← cmac C payload key none
      if m != e.pmac then throw Err.formatBf3
    let comp ←
      if e.desc.lookup Gen.BF3TAG_ENC == some sessionKeyEnc then do
        let plain ← C.decrypt key none payload
        pure (mkComp e.desc plain (some e.declared) true)
      else pure (mkComp e.desc payload (some e.declared) false)
    let (rest, r') ← readComps C chk key es (pos + e.total) r
    pure (comp :: rest, r')

/-- `from_binary(raw_rdr, …)` where the reader already consumed `pos` bytes -/
def fromBinary (C : Crypto) (chk : Bool) (key : Bytes) (pos : Nat) (bs : Bytes) : Except Err (List Comp) := do
  let (es, r, used) ← dirFromBinary C chk key bs
  let (comps, r') ← readComps C chk key es (pos + used) r
  ensureEof r'
  pure comps

/-- `read_file` after the text envelope: signature check, then `from_binary` -/
def readBinary (C : Crypto) (chk : Bool) (key : Bytes) (bin : Bytes) : Except Err (List Comp) := do
  let (sig, r) ← take Gen.BF3_FILE_SIG.length bin
  if sig != Gen.BF3_FILE_SIG then throw Err.formatBf3
  fromBinary C chk key Gen.BF3_FILE_SIG.length r

/-- `write_file` before the text envelope -/
def writeBinary (C : Crypto) (comps : List Comp) (key : Bytes) : Except Err Bytes := do
  let b ← toBinary C comps Gen.BF3_FILE_SIG.length key
  pure (Gen.BF3_FILE_SIG ++ b)

end Bec2Verif.Bf3
