import Bec2Verif.Model.Bytes
/-!
SHA-256 (FIPS 180-4) as an executable Lean function, so that `hashlib.sha256` — an
external call of the code — can be instantiated in the driver and bytes compared end to
end.  Validated against hashlib on every run of the checks that use it.
-/
namespace Bec2Verif.Sha256

def mask32 : Nat := 0xFFFFFFFF
@[inline] def add32 (a b : Nat) : Nat := (a + b) &&& mask32
@[inline] def rotr (x n : Nat) : Nat := ((x >>> n) ||| (x <<< (32 - n))) &&& mask32

def K : Array Nat := #[
  0x428a2f98, 0x71374491, 0xb5c0fbcf, 0xe9b5dba5, 0x3956c25b, 0x59f111f1, 0x923f82a4, 0xab1c5ed5,
  0xd807aa98, 0x12835b01, 0x243185be, 0x550c7dc3, 0x72be5d74, 0x80deb1fe, 0x9bdc06a7, 0xc19bf174,
  0xe49b69c1, 0xefbe4786, 0x0fc19dc6, 0x240ca1cc, 0x2de92c6f, 0x4a7484aa, 0x5cb0a9dc, 0x76f988da,
  0x983e5152, 0xa831c66d, 0xb00327c8, 0xbf597fc7, 0xc6e00bf3, 0xd5a79147, 0x06ca6351, 0x14292967,
  0x27b70a85, 0x2e1b2138, 0x4d2c6dfc, 0x53380d13, 0x650a7354, 0x766a0abb, 0x81c2c92e, 0x92722c85,
  0xa2bfe8a1, 0xa81a664b, 0xc24b8b70, 0xc76c51a3, 0xd192e819, 0xd6990624, 0xf40e3585, 0x106aa070,
  0x19a4c116, 0x1e376c08, 0x2748774c, 0x34b0bcb5, 0x391c0cb3, 0x4ed8aa4a, 0x5b9cca4f, 0x682e6ff3,
  0x748f82ee, 0x78a5636f, 0x84c87814, 0x8cc70208, 0x90befffa, 0xa4506ceb, 0xbef9a3f7, 0xc67178f2]

def H0 : List Nat :=
  [0x6a09e667, 0xbb67ae85, 0x3c6ef372, 0xa54ff53a, 0x510e527f, 0x9b05688c, 0x1f83d9ab, 0x5be0cd19]

def pad (m : Bytes) : Bytes :=
  let l := m.length
  let k := (119 - l % 64) % 64   -- zero bytes so that total ≡ 0 mod 64
  m ++ [0x80] ++ zeros k ++ toBE 8 (l * 8)

def words : Bytes → List Nat
  | a :: b :: c :: d :: r => (a.toNat <<< 24 ||| b.toNat <<< 16 ||| c.toNat <<< 8 ||| d.toNat) :: words r
  | _ => []

def schedule (w : Array Nat) : Nat → Array Nat
  | 0 => w
  | n+1 =>
    let i := w.size
    let w15 := w.getD (i - 15) 0
    let w2 := w.getD (i - 2) 0
    let s0 := rotr w15 7 ^^^ rotr w15 18 ^^^ (w15 >>> 3)
    let s1 := rotr w2 17 ^^^ rotr w2 19 ^^^ (w2 >>> 10)
    schedule (w.push (add32 (add32 (w.getD (i - 16) 0) s0) (add32 (w.getD (i - 7) 0) s1))) n

structure St where
  a : Nat
  b : Nat
  c : Nat
  d : Nat
  e : Nat
  f : Nat
  g : Nat
  h : Nat

def round (w : Array Nat) (s : St) (i : Nat) : St :=
  let S1 := rotr s.e 6 ^^^ rotr s.e 11 ^^^ rotr s.e 25
  let ch := (s.e &&& s.f) ^^^ ((s.e ^^^ mask32) &&& s.g)
  let t1 := add32 (add32 (add32 s.h S1) (add32 ch (K.getD i 0))) (w.getD i 0)
  let S0 := rotr s.a 2 ^^^ rotr s.a 13 ^^^ rotr s.a 22
  let maj := (s.a &&& s.b) ^^^ (s.a &&& s.c) ^^^ (s.b &&& s.c)
  let t2 := add32 S0 maj
  { a := add32 t1 t2, b := s.a, c := s.b, d := s.c, e := add32 s.d t1, f := s.e, g := s.f, h := s.g }

def compress (h : List Nat) (block : Bytes) : List Nat :=
  let w := schedule (words block).toArray 48
  let s0 : St := { a := h.getD 0 0, b := h.getD 1 0, c := h.getD 2 0, d := h.getD 3 0,
                   e := h.getD 4 0, f := h.getD 5 0, g := h.getD 6 0, h := h.getD 7 0 }
  let s := (List.range 64).foldl (round w) s0
  [add32 s0.a s.a, add32 s0.b s.b, add32 s0.c s.c, add32 s0.d s.d,
   add32 s0.e s.e, add32 s0.f s.f, add32 s0.g s.g, add32 s0.h s.h]

def blocks : Nat → Bytes → List Bytes
  | 0, _ => []
  | n+1, bs => if bs.isEmpty then [] else bs.take 64 :: blocks n (bs.drop 64)

def sha256 (m : Bytes) : Bytes :=
  let p := pad m
  let h := (blocks p.length p).foldl compress H0
  h.flatMap (toBE 4)

end Bec2Verif.Sha256
