import Bec2Verif.Model.Bytes
/-!
Model of the DER primitives of the bundled python-ecdsa (`ecdsa/der.py`): lengths, INTEGER, OCTET STRING, SEQUENCE,
BIT STRING, OBJECT IDENTIFIER, context-specific constructed tags.

The decoders are modelled as they are: `remove_octet_string`, `remove_constructed`, `remove_object` and
`remove_bitstring` slice the body without comparing the announced length with what is there (the callers notice),
`remove_sequence` and `remove_integer` do compare.
-/
namespace Bec2Verif.Der
open Bec2Verif

/-- big-endian bytes of `n` with an even number of hex digits: `binascii.unhexlify("%x" % n)` padded; `0 ↦ [0]` -/
def beAux : Nat → Nat → Bytes → Bytes
  | 0, _, acc => acc
  | fuel+1, n, acc => if n < 256 then UInt8.ofNat n :: acc else beAux fuel (n / 256) (UInt8.ofNat (n % 256) :: acc)

def beBytes (n : Nat) : Bytes := beAux (n + 1) n []

/-- `encode_length` -/
def encodeLength (l : Nat) : Bytes :=
  if l < 0x80 then [UInt8.ofNat l] else
    let s := beBytes l
    UInt8.ofNat (0x80 + s.length) :: s

/-- `read_length`: (value, number of bytes read) -/
def readLength (s : Bytes) : Except Err (Nat × Nat) :=
  match s with
  | [] => .error .unexpectedDER
  | b0 :: rest =>
    if b0.toNat < 0x80 then .ok (b0.toNat, 1) else
    let llen := b0.toNat - 0x80
    if llen = 0 then .error .unexpectedDER else
    if llen > rest.length then .error .unexpectedDER else
    match rest with
    | [] => .error .unexpectedDER
    | msb :: _ =>
      if msb.toNat = 0 || (llen = 1 && msb.toNat < 0x80) then .error .unexpectedDER
      else .ok (fromBE (rest.take llen), 1 + llen)

/-- `string[a : a + n]` and `string[a + n :]` -/
def sliceBody (s : Bytes) (a n : Nat) : Bytes × Bytes := ((s.drop a).take n, s.drop (a + n))

/-- `encode_integer` (non-negative) -/
def encodeInteger (r : Nat) : Bytes :=
  let s := beBytes r
  if (s.head?.getD 0).toNat ≤ 0x7F then 0x02 :: encodeLength s.length ++ s
  else 0x02 :: encodeLength (s.length + 1) ++ (0 :: s)

/-- `remove_integer` -/
def removeInteger (s : Bytes) : Except Err (Nat × Bytes) :=
  match s with
  | [] => .error .unexpectedDER
  | t :: rest =>
    if t != 0x02 then .error .unexpectedDER else
    match readLength rest with
    | .error e => .error e
    | .ok (length, llen) =>
      if length > s.length - 1 - llen then .error .unexpectedDER else
      if length = 0 then .error .unexpectedDER else
      match sliceBody s (1 + llen) length with
      | ([], _) => .error .unexpectedDER
      | (msb :: tl, rest') =>
        if msb.toNat ≥ 0x80 then .error .unexpectedDER else
        if length > 1 && msb.toNat = 0 && (tl.head?.getD 0).toNat < 0x80 then .error .unexpectedDER
        else .ok (fromBE (msb :: tl), rest')

/-- `encode_octet_string` -/
def encodeOctetString (s : Bytes) : Bytes := 0x04 :: encodeLength s.length ++ s

/-- `remove_octet_string` (after the repair: an empty string is `UnexpectedDER`) -/
def removeOctetString (s : Bytes) : Except Err (Bytes × Bytes) :=
  match s with
  | [] => .error .unexpectedDER
  | t :: rest =>
    if t != 0x04 then .error .unexpectedDER else
    match readLength rest with
    | .error e => .error e
    | .ok (length, llen) => .ok (sliceBody s (1 + llen) length)

/-- `encode_sequence(*pieces)` -/
def encodeSequence (pieces : List Bytes) : Bytes :=
  let body := pieces.flatten
  0x30 :: encodeLength body.length ++ body

/-- `remove_sequence` -/
def removeSequence (s : Bytes) : Except Err (Bytes × Bytes) :=
  match s with
  | [] => .error .unexpectedDER
  | t :: rest =>
    if t != 0x30 then .error .unexpectedDER else
    match readLength rest with
    | .error e => .error e
    | .ok (length, llen) =>
      if length > s.length - 1 - llen then .error .unexpectedDER else .ok (sliceBody s (1 + llen) length)

/-- `is_sequence` -/
def isSequence (s : Bytes) : Bool := s.head? == some 0x30

/-- `encode_bitstring(s, 0)` -/
def encodeBitstring0 (s : Bytes) : Bytes := 0x03 :: encodeLength (s.length + 1) ++ (0 :: s)

/-- `remove_bitstring(string, expect_unused)` with an integer `expect_unused` -/
def removeBitstring (s : Bytes) (expect : Nat) : Except Err (Bytes × Bytes) :=
  match s with
  | [] => .error .unexpectedDER
  | t :: rest =>
    if t != 0x03 then .error .unexpectedDER else
    match readLength rest with
    | .error e => .error e
    | .ok (length, llen) =>
      if length = 0 then .error .unexpectedDER else
      match sliceBody s (1 + llen) length with
      | ([], _) => .error .unexpectedDER      -- after the repair: content announced but absent
      | (unused :: bits, rest') =>
        if unused.toNat > 7 then .error .unexpectedDER else
        if expect != unused.toNat then .error .unexpectedDER else
        if unused.toNat != 0 then
          match bits.getLast? with
          | none => .error .unexpectedDER
          | some last => if last.toNat % (2 ^ unused.toNat) != 0 then .error .unexpectedDER else .ok (bits, rest')
        else .ok (bits, rest')

/-- `encode_number`: base-128 digits, most significant first, continuation bit on all but the last -/
def b128Aux : Nat → Nat → List Nat → List Nat
  | 0, _, acc => acc
  | fuel+1, n, acc => if n = 0 then acc else b128Aux fuel (n / 128) ((n % 128 + 128) :: acc)

def encodeNumber (n : Nat) : Bytes :=
  let ds := b128Aux (n + 1) n []
  let ds := if ds.isEmpty then [0] else ds
  (ds.dropLast ++ [ds.getLast?.getD 0 % 128]).map UInt8.ofNat

/-- `read_number`: (value, bytes read); `str_idx_as_int(string, 0)` on an empty string is an IndexError -/
def readNumberLoop : Nat → Bytes → Nat → Nat → Except Err (Nat × Nat)
  | 0, _, _, _ => .error .unexpectedDER
  | fuel+1, s, number, llen =>
    match s with
    | [] => .error .unexpectedDER        -- "ran out of length bytes"
    | d :: rest =>
      let number := number * 128 + d.toNat % 128
      if d.toNat < 0x80 then .ok (number, llen + 1) else readNumberLoop fuel rest number (llen + 1)

def readNumber (s : Bytes) : Except Err (Nat × Nat) :=
  match s with
  | [] => .error .indexError
  | b0 :: _ => if b0.toNat = 0x80 then .error .unexpectedDER else readNumberLoop (s.length + 1) s 0 0

/-- `encode_oid(first, second, *pieces)` -/
def encodeOid (first second : Nat) (pieces : List Nat) : Bytes :=
  let body := encodeNumber (40 * first + second) ++ (pieces.map encodeNumber).flatten
  0x06 :: encodeLength body.length ++ body

def readNumbers : Nat → Bytes → List Nat → Except Err (List Nat)
  | 0, _, _ => .error .unexpectedDER
  | fuel+1, body, acc =>
    if body.isEmpty then .ok acc.reverse else do
      let (n, ll) ← readNumber body
      readNumbers fuel (body.drop ll) (n :: acc)

/-- `remove_object` -/
def removeObject (s : Bytes) : Except Err (List Nat × Bytes) :=
  match s with
  | [] => .error .unexpectedDER
  | t :: rest =>
    if t != 0x06 then .error .unexpectedDER else do
      let (length, llen) ← readLength rest
      let (body, rest') := sliceBody s (1 + llen) length
      if body.isEmpty then throw Err.unexpectedDER
      if body.length != length then throw Err.unexpectedDER
      let numbers ← readNumbers (body.length + 1) body []
      match numbers with
      | [] => throw Err.indexError
      | n0 :: tl =>
        let first := if n0 < 80 then n0 / 40 else 2
        pure (first :: (n0 - 40 * first) :: tl, rest')

/-- `encode_constructed(tag, value)` -/
def encodeConstructed (tag : Nat) (value : Bytes) : Bytes := UInt8.ofNat (0xA0 + tag) :: encodeLength value.length ++ value

/-- `remove_constructed` (after the repair) -/
def removeConstructed (s : Bytes) : Except Err (Nat × Bytes × Bytes) :=
  match s with
  | [] => .error .unexpectedDER
  | s0 :: rest =>
    if s0.toNat / 32 != 5 then .error .unexpectedDER else       -- (s0 & 0xE0) != 0xA0
    match readLength rest with
    | .error e => .error e
    | .ok (length, llen) =>
      let sb := sliceBody s (1 + llen) length
      .ok (s0.toNat % 32, sb.1, sb.2)

end Bec2Verif.Der
