import Bec2Verif.Model.Bf3
import Bec2Verif.Model.Crc
import Bec2Verif.Model.Sha256
/-!
Model of `bec2format/bec2file.py`: the AES auth-block container
(`AesEncryptorMixin`, 87-116), the customer-key and security-code encryptors
(130-167, 252-265), the ECIES block (`EccEncryptor`/`EccDecryptor`, 170-249),
auth blocks and encryptor selection (268-419), header pack/unpack and the file
(422-514).  Randomness (`random_bytes`, `PrivateEccKey.generate`) is an oracle
input; the EC operations and SHA-256 are parameters (`Ecc`, `sha`).
-/
namespace Bec2Verif.Bec2
open Bec2Verif Bf3

/-- what `bec2file.py` needs from the registered ECC plug-in; public keys are raw 64-byte strings -/
structure Ecc where
  /-- `PrivateEccKey.public_key.to_raw_bin_fmt()` of the key with private scalar `d` -/
  pubOf : Nat → Except Err Bytes
  /-- `create_public_ecc_key_from_raw_fmt(raw)`: parse + validate (on curve, in range) -/
  loadRaw : Bytes → Except Err Bytes
  /-- `compute_dh_secret(d, pub)`: 32-byte big-endian x of `d·pub` -/
  dh : Nat → Bytes → Except Err Bytes

structure Env where
  C : Crypto
  E : Ecc
  sha : Bytes → Bytes

def crcOf (p : Bytes) : Nat := Crc.crcPy (p.map UInt8.toNat)

/-- `AesEncryptorMixin.encrypt` -/
def wrap (C : Crypto) (key p : Bytes) : Except Err Bytes := do
  let crc ← toBytesBE 2 (crcOf p)
  let lb ← toBytesBE 1 (p.length + crc.length)
  let padLen := (16 - (2 + 1 + p.length + crc.length) % 16) % 16 + 1
  C.encrypt key none ([0x42] ++ lb ++ zeros padLen ++ p ++ crc)

/-- the frame parser of `AesEncryptorMixin.decrypt` (reader with strict reads); `ctLen = len(ciphertext)` -/
def parseFrame (ctLen : Nat) (frame : Bytes) : Except Err Bytes :=
  take 1 frame >>= fun mr =>
  if mr.1 != [0x42] then .error .formatBec2 else
  take 1 mr.2 >>= fun lr =>
  let ppl := fromBE lr.1
  if ctLen < ppl then .error .valueError else          -- negative seek
  let rest := frame.drop (ctLen - ppl)
  (if ppl < 2 then .ok (rest, []) else take (ppl - 2) rest) >>= fun pr =>
  take 2 pr.2 >>= fun cr =>
  if crcOf pr.1 != fromBE cr.1 then .error .formatBec2 else .ok pr.1

/-- `AesEncryptorMixin.decrypt` -/
def unwrap (C : Crypto) (key ct : Bytes) : Except Err Bytes :=
  C.decrypt key none ct >>= fun frame => parseFrame ct.length frame

/-- Python slice bounds `[a : b]` on a sequence of length `n` -/
def sliceBounds (n : Nat) (a b : Int) : Nat × Nat :=
  let norm (i : Int) : Nat :=
    let i := if i < 0 then i + n else i
    if i < 0 then 0 else if i > n then n else i.toNat
  let s := norm a
  let e := norm b
  (s, if e < s then s else e)

/-- `x[a:b] = v` on a bytearray -/
def sliceAssign (x : Bytes) (a b : Int) (v : Bytes) : Bytes :=
  let (s, e) := sliceBounds x.length a b
  x.take s ++ v ++ x.drop e

def sliceGet (x : Bytes) (a b : Int) : Bytes :=
  let (s, e) := sliceBounds x.length a b
  (x.take e).drop s

inductive Encryptor where
  /-- `SoftwareCustKeyEncryptor(crypto_key, customer_key, customer_key_pos)`; empty key = absent -/
  | custKey (key ck : Bytes) (pos : Int)
  /-- `EccEncryptor(sel, public_key)`: encrypt only -/
  | eccPub (sel : Nat) (pub : Bytes)
  /-- `EccDecryptor(sel, private_key)` -/
  | eccPriv (sel : Nat) (priv : Nat)
  /-- `ConfigSecurityCodeEncryptor(code)` -/
  | csc (code : Bytes)
  deriving DecidableEq, Repr

def custKeyEncrypt (C : Crypto) (key ck : Bytes) (pos : Int) (p : Bytes) : Except Err Bytes :=
  let p := if ck.isEmpty then p else sliceAssign p pos (pos + Gen.CUSTOMER_KEY_SIZE) ck
  wrap C key p

def custKeyDecrypt (C : Crypto) (key ck : Bytes) (pos : Int) (ct : Bytes) : Except Err Bytes := do
  let p ← unwrap C key ct
  if ck.isEmpty then pure p else
    if sliceGet p pos (pos + Gen.CUSTOMER_KEY_SIZE) != ck then throw Err.formatBec2
    else pure (sliceAssign p pos (pos + Gen.CUSTOMER_KEY_SIZE) (zeros Gen.CUSTOMER_KEY_SIZE))

def cscKey (sha : Bytes → Bytes) (code : Bytes) : Bytes := (sha code).take Gen.AES_BLOCK_SIZE

/-- `EccEncryptor.encrypt` with ephemeral private scalar `eph` -/
def eccEncrypt (env : Env) (pub : Bytes) (eph : Nat) (p : Bytes) : Except Err Bytes := do
  let secret ← env.E.dh eph pub
  let k := (env.sha secret).take Gen.AES_KEY_SIZE
  let ephPub ← env.E.pubOf eph
  let c ← env.C.encrypt k none p
  pure ([0x04] ++ ephPub ++ c)

/-- `EccDecryptor.decrypt` -/
def eccDecrypt (env : Env) (priv : Nat) (ct : Bytes) : Except Err Bytes := do
  let (m, r1) ← take 1 ct
  if m != [0x04] then throw Err.valueError
  let (raw, r2) ← take 64 r1
  let pub ← env.E.loadRaw raw
  let (enc, _) ← take Gen.AES_BLOCK_SIZE r2
  let secret ← env.E.dh priv pub
  let k := (env.sha secret).take Gen.AES_KEY_SIZE
  env.C.decrypt k none enc

/-- `encryptor.encrypt(plaintext)`; ECC encryption consumes one ephemeral key from the oracle -/
def encEncrypt (env : Env) (e : Encryptor) (p : Bytes) (ephs : List Nat) : Except Err (Bytes × List Nat) :=
  match e with
  | .custKey key ck pos => do let c ← custKeyEncrypt env.C key ck pos p; pure (c, ephs)
  | .csc code => do let c ← wrap env.C (cscKey env.sha code) p; pure (c, ephs)
  | .eccPub _ pub =>
    match ephs with
    | [] => .error .notImplemented     -- oracle exhausted (harness error)
    | d :: rest => do let c ← eccEncrypt env pub d p; pure (c, rest)
  | .eccPriv _ priv =>
    match ephs with
    | [] => .error .notImplemented
    | d :: rest => do
      let pub ← env.E.pubOf priv
      let c ← eccEncrypt env pub d p
      pure (c, rest)

/-- `encryptor.decrypt(ciphertext)`; a public-only `EccEncryptor` inherits `NotImplementedError` -/
def encDecrypt (env : Env) (e : Encryptor) (ct : Bytes) : Except Err Bytes :=
  match e with
  | .custKey key ck pos => custKeyDecrypt env.C key ck pos ct
  | .csc code => unwrap env.C (cscKey env.sha code) ct
  | .eccPub _ _ => .error .notImplemented
  | .eccPriv _ priv => eccDecrypt env priv ct

inductive Kind where | cust | ecc | csc
  deriving DecidableEq, Repr

/-- `isinstance(encryptor, REQUIRED_ENCRYPTOR_CLS)` -/
def isKind : Kind → Encryptor → Bool
  | .cust, .custKey .. => true
  | .ecc, .eccPub .. => true
  | .ecc, .eccPriv .. => true
  | .csc, .csc .. => true
  | _, _ => false

def selOf : Encryptor → Option Nat
  | .eccPub s _ => some s
  | .eccPriv s _ => some s
  | _ => none

/-- `select_encryptor(ext, fallback, filter)`; `KeyError` when nothing matches and no fallback -/
def selectEncryptor (k : Kind) (ext : List Encryptor) (fallback : Option Encryptor) (sel : Option Nat) :
    Except Err Encryptor :=
  match ext.find? (fun e => isKind k e && (match sel with | none => true | some s => selOf e == some s)) with
  | some e => .ok e
  | none => match fallback with
    | some f => .ok f
    | none => .error .keyError

inductive AuthBlock where
  | initCust
  | initEcc (sel : Nat)
  | update (code : Bytes) (ver : Nat)
  | unknown (tag : Nat) (raw : Bytes)
  deriving DecidableEq, Repr

def AuthBlock.tag : AuthBlock → Nat
  | .initCust => Gen.TAG_INIT_CUSTKEY
  | .initEcc _ => Gen.TAG_INIT_ECC
  | .update .. => Gen.TAG_UPDATE
  | .unknown t _ => t

/-- `auth_block.pack(session_key, ext_encryptors)` -/
def packBlock (env : Env) (blk : AuthBlock) (sk : Bytes) (ext : List Encryptor) (ephs : List Nat) :
    Except Err (Bytes × List Nat) :=
  match blk with
  | .initCust => do
    let e ← selectEncryptor .cust ext none none
    encEncrypt env e (Gen.CUSTOMER_KEY_PLACEHOLDER ++ sk) ephs
  | .initEcc sel => do
    -- the fallback `EccEncryptor(self.key_selector)` is constructed eagerly:
    -- `DEFAULT_PUBLIC_KEYS[key_selector]` raises KeyError for an unknown selector
    let fb ← match Gen.DEFAULT_PUBLIC_KEYS.lookup sel with
      | some der => pure (Encryptor.eccPub sel (der.drop 27))
      | none => throw Err.keyError
    let e ← selectEncryptor .ecc ext (some fb) (some sel)
    let sb ← toBytesBE 1 sel
    let (c, ephs') ← encEncrypt env e sk ephs
    pure (sb ++ c, ephs')
  | .update code ver => do
    let e ← selectEncryptor .csc ext (some (.csc code)) none
    let vb ← toBytesBE 1 ver
    encEncrypt env e (sk ++ vb) ephs
  | .unknown _ raw => pure (raw, ephs)

/-- `cls.unpack(raw, ext_encryptors)` for a tag in `AUTH_BLOCK_CLS_MAP` -/
def unpackBlock (env : Env) (tag : Nat) (raw : Bytes) (ext : List Encryptor) : Except Err (AuthBlock × Bytes) :=
  if tag = Gen.TAG_INIT_CUSTKEY then do
    let e ← selectEncryptor .cust ext none none
    let blk ← encDecrypt env e raw
    pure (.initCust, blk.drop (blk.length - Gen.AES_BLOCK_SIZE))
  else if tag = Gen.TAG_INIT_ECC then do
    match raw with
    | [] => throw Err.formatBec2      -- `if not raw: raise Bec2FileFormatError`
    | s :: rest =>
      let e ← selectEncryptor .ecc ext none (some s.toNat)
      let sk ← encDecrypt env e rest
      pure (.initEcc s.toNat, sk)
  else if tag = Gen.TAG_UPDATE then do
    let e ← selectEncryptor .csc ext none none
    let blk ← encDecrypt env e raw
    let (sk, r) ← take Gen.AES_BLOCK_SIZE blk
    let (vb, _) ← take 1 r
    let code := match e with | .csc c => c | _ => []
    pure (.update code (fromBE vb), sk)
  else .error .keyError

/-- `Bec2File.__init__`: `{block.tag: block for block in auth_blocks}` -/
def blocksDict : List AuthBlock → List AuthBlock → List AuthBlock
  | acc, [] => acc
  | acc, b :: bs =>
    blocksDict (if acc.any (fun x => x.tag == b.tag)
      then acc.map (fun x => if x.tag == b.tag then b else x) else acc ++ [b]) bs

/-- `pack_auth_blocks` -/
def packBlocks (env : Env) (sk : Bytes) (ext : List Encryptor) : List AuthBlock → List Nat → Except Err (Bytes × List Nat)
  | [], ephs => .ok ([0, 0], ephs)
  | b :: bs, ephs => do
    let (raw, ephs') ← packBlock env b sk ext ephs
    let tb ← toBytesBE 1 b.tag
    let lb ← toBytesBE 1 raw.length
    let (rest, ephs'') ← packBlocks env sk ext bs ephs'
    pure (tb ++ lb ++ raw ++ rest, ephs'')

/-- `unpack_auth_blocks`: returns blocks, common key, rest of stream and bytes consumed -/
def unpackBlocks (env : Env) (ext : List Encryptor) :
    Nat → Bytes → List AuthBlock → Option Bytes → Nat → Except Err (List AuthBlock × Option Bytes × Bytes × Nat)
  | 0, _, _, _, _ => .error .outOfFuel      -- unreachable: fuel = header length + 1 (C14: `readBinary_total`)
  | fuel+1, bs, acc, common, used => do
    let (tag, r1) ← readInt 1 bs
    let (len, r2) ← readInt 1 r1
    let (val, r3) ← take len r2
    if tag = 0 ∧ len = 0 then pure (acc, common, r3, used + 2)
    else
      match (if Gen.AUTH_BLOCK_TAGS.contains tag then unpackBlock env tag val ext else .error .keyError) with
      | .error .keyError => unpackBlocks env ext fuel r3 (acc ++ [.unknown tag val]) common (used + 2 + len)
      -- `except (KeyError, NotImplementedError)`: an encryptor that cannot decrypt counts as no encryptor
      | .error .notImplemented => unpackBlocks env ext fuel r3 (acc ++ [.unknown tag val]) common (used + 2 + len)
      | .error e => .error e
      | .ok (blk, sk) =>
        match common with
        | some c => if sk != c then .error .formatBec2
                    else unpackBlocks env ext fuel r3 (acc ++ [blk]) (some sk) (used + 2 + len)
        | none => unpackBlocks env ext fuel r3 (acc ++ [blk]) (some sk) (used + 2 + len)

/-- `Bec2File.__init__`: `session_key or random_bytes(16)`; the random stream is an oracle input -/
def initKey (sk : Option Bytes) (ρ : Bytes) : Bytes × Bytes :=
  match sk with
  | some k => if k.isEmpty then (ρ.take 16, ρ.drop 16) else (k, ρ)
  | none => (ρ.take 16, ρ.drop 16)

/-- `n` successive constructions without a supplied key -/
def drawKeys : Nat → Bytes → List Bytes × Bytes
  | 0, ρ => ([], ρ)
  | n+1, ρ => let (k, ρ') := initKey none ρ; let (ks, ρ'') := drawKeys n ρ'; (k :: ks, ρ'')

structure File where
  comps : List Comp
  blocks : List AuthBlock     -- already de-duplicated by tag (`blocksDict`)
  key : Bytes
  deriving DecidableEq, Repr

/-- `Bec2File.to_binary(ext_encryptors)` -/
def toBinary (env : Env) (f : File) (ext : List Encryptor) (ephs : List Nat) : Except Err (Bytes × List Nat) := do
  let (packed, ephs') ← packBlocks env f.key ext f.blocks ephs
  let header := Gen.BEC2_FILE_SIG ++ packed
  let body ← Bf3.toBinary env.C f.comps header.length f.key
  pure (header ++ body, ephs')

/-- `Bec2File.read_file` after the text envelope. The file object is built by the ordinary constructor, so a recovered
session key that is *empty* (an auth block with a genuine container around an empty payload - possible only for the
holder of the wrapping key) is replaced by fresh random bytes `ρ` like a key that was never given; with a non-empty body
such a file is then rejected by the MAC check, with an empty body it is accepted. -/
def readBinary (env : Env) (ext : List Encryptor) (chk : Bool) (bin : Bytes) (ρ : Bytes := []) : Except Err File := do
  let (sig, r) ← take Gen.BEC2_FILE_SIG.length bin
  if sig != Gen.BEC2_FILE_SIG then throw Err.formatBec2
  let (blocks, common, r', used) ← unpackBlocks env ext (r.length + 1) r [] none 0
  match common with
  | none => throw Err.formatBec2
  | some sk =>
    let comps ← Bf3.fromBinary env.C chk sk (Gen.BEC2_FILE_SIG.length + used) r'
    pure { comps := comps, blocks := blocksDict [] blocks, key := (initKey (some sk) ρ).1 }

end Bec2Verif.Bec2
