import Bec2Verif.Model.KeyDer
/-!
Model of the explicit curve-parameter encoding of the bundled python-ecdsa (`curves.py:87-280`):
`Curve.to_der("explicit", point_encoding)` and the explicit branch of `Curve.from_der`:

    ECParameters ::= SEQUENCE { version INTEGER (1), fieldID SEQUENCE { OID prime-field, INTEGER p },
                                curve SEQUENCE { OCTET STRING a, OCTET STRING b [, seed] },
                                base OCTET STRING, order INTEGER, cofactor INTEGER OPTIONAL }

The decoder returns the parameters and the coordinates of the base point (it does not check that the point is on the
curve), then looks for a named curve with the same `p`, `a mod p`, `b mod p` and generator.  A *compressed* base point
needs a modular square root; for a modulus that is not the prime of a named curve that leaves the model
(`notModelled`: the code then runs number theory on a number that need not be prime).
-/
namespace Bec2Verif.CurveDer
open Bec2Verif Der PointCodec

def oidPrimeField : List Nat := [1, 2, 840, 10045, 1, 1]
def oidChar2Field : List Nat := [1, 2, 840, 10045, 1, 2]

structure Params where
  p : Nat
  a : Nat
  b : Nat
  base : Bytes
  order : Nat
  cofactor : Option Nat
  deriving DecidableEq, Repr

/-- `if self.curve.cofactor(): seq_elements.append(encode_integer(cofactor))` -/
def cofPieces : Option Nat → List Bytes
  | some h => if h = 0 then [] else [encodeInteger h]
  | none => []

/-- `Curve.to_der("explicit", point_encoding)`; `base` = `generator.to_bytes(point_encoding)`, `a`, `b` as stored in the
curve object (possibly negative), `cofactor` `None` or a number (`if self.curve.cofactor():` - zero counts as absent) -/
def toDer (p : Nat) (a b : Int) (base : Bytes) (order : Nat) (cofactor : Option Nat) : Except Err Bytes := do
  let as ← numberToString (a % (p : Int)).toNat p
  let bs ← numberToString (b % (p : Int)).toNat p
  pure (encodeSequence ([encodeInteger 1, encodeSequence [encOid oidPrimeField, encodeInteger p],
    encodeSequence [encodeOctetString as, encodeOctetString bs], encodeOctetString base, encodeInteger order] ++
    cofPieces cofactor))

/-- `cofactor = None; if rest: cofactor, _ = der.remove_integer(rest)` -/
def parseCof (rest : Bytes) : Except Err (Option Nat) :=
  if rest.isEmpty then .ok none else removeInteger rest >>= fun (c, _) => .ok (some c)

/-- the DER part of the explicit branch of `Curve.from_der`, statement by statement -/
def parse (s : Bytes) : Except Err Params :=
  removeSequence s >>= fun (seq, empty) =>
  if !empty.isEmpty then .error .unexpectedDER else
  removeInteger seq >>= fun (version, rest) =>
  if version != 1 then .error .unexpectedDER else
  removeSequence rest >>= fun (fieldId, rest) =>
  removeSequence rest >>= fun (curve, rest) =>
  removeOctetString rest >>= fun (baseBytes, rest) =>
  removeInteger rest >>= fun (order, rest) =>
  parseCof rest >>= fun cofactor =>
  removeObject fieldId >>= fun (fieldType, rest2) =>
  if fieldType == oidChar2Field then .error .unknownCurve else
  if fieldType != oidPrimeField then .error .unknownCurve else
  removeInteger rest2 >>= fun (prime, empty2) =>
  if !empty2.isEmpty then .error .unexpectedDER else
  removeOctetString curve >>= fun (aBytes, rest3) =>
  removeOctetString rest3 >>= fun (bBytes, _) =>
  -- `string_to_number(b"")` = `int(b"", 16)`: ValueError
  if aBytes.isEmpty || bBytes.isEmpty then .error .valueError else
  .ok { p := prime, a := fromBE aBytes, b := fromBE bBytes, base := baseBytes, order := order, cofactor := cofactor }

/-- `AbstractPoint.from_bytes(curve, data, validate_encoding=True, valid_encodings=("uncompressed", "compressed", "hybrid"))`:
as `fromBytes`, but a string of the raw length is not accepted -/
def baseFromBytes (c : CurveParams) (data : Bytes) : Except Err (Nat × Nat) :=
  let rl := 2 * orderlen c.p
  if data.length = rl + 1 then fromBytes c data true
  else if data.length = rl / 2 + 1 then fromCompressed c data
  else .error .malformedPoint

/-- the result of `Curve.from_der` on explicit parameters: the name of the curve found (or "unknown"), `p`, `a`, `b`,
the base point and its order, and the cofactor of the curve object returned -/
structure Found where
  name : String
  p : Nat
  a : Int
  b : Int
  gx : Nat
  gy : Nat
  order : Nat
  cofactor : Option Nat
  deriving Repr

def namedPrime (p : Nat) : Bool := Gen.curves.any (fun r => r.p == (p : Int))

/-- `tmp_curve == i` for a named curve `i`: same `p`, `a`, `b` modulo `p`, and equal generators (both with `z = 1`:
coordinates equal modulo `p`) -/
def sameCurve (q : Params) (gx gy : Nat) (r : Gen.CurveRec) : Bool :=
  r.p == (q.p : Int) && (r.a % r.p == (q.a : Int) % r.p) && (r.b % r.p == (q.b : Int) % r.p) &&
  (((gx : Int) - r.gx) % r.p == 0) && (((gy : Int) - r.gy) % r.p == 0)

/-- `Curve.from_der(data)` for a SEQUENCE (explicit parameters), all encodings allowed -/
def fromDer (s : Bytes) : Except Err Found :=
  parse s >>= fun q =>
  let rl := 2 * orderlen q.p
  if q.base.length = rl / 2 + 1 && q.base.length != rl + 1 && !namedPrime q.p then .error .notModelled else
  baseFromBytes { p := q.p, a := q.a, b := q.b } q.base >>= fun (gx, gy) =>
  match Gen.curves.find? (sameCurve q gx gy) with
  | some r => .ok { name := r.name, p := r.p.toNat, a := r.a, b := r.b, gx := r.gx.toNat, gy := r.gy.toNat, order := r.n.toNat,
                    cofactor := some r.h.toNat }
  | none => .ok { name := "unknown", p := q.p, a := q.a, b := q.b, gx := gx, gy := gy, order := q.order, cofactor := q.cofactor }

/-- `Curve.from_der(data)` with every encoding allowed: explicit parameters for a SEQUENCE, otherwise the OID of a named curve -/
def curveFromDer (s : Bytes) : Except Err Found :=
  if isSequence s then fromDer s else
  KeyDer.curveFromDer s >>= fun r =>
  .ok { name := r.name, p := r.p.toNat, a := r.a, b := r.b, gx := r.gx.toNat, gy := r.gy.toNat, order := r.n.toNat,
        cofactor := some r.h.toNat }

end Bec2Verif.CurveDer
