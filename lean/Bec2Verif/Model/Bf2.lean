import Bec2Verif.Model.Bf3
import Bec2Verif.Model.ConfigId
import Bec2Verif.Gen.Maps
/-!
Model of the legacy BF2 importer (bf3file.py:494-727): line parser, payload unpacking and
conversion, instruction execution, the section state machine, sorting, annotations and the
platform-filter formatter (203-227).
-/
namespace Bec2Verif.Bf2
open Bec2Verif Bec2Verif.Text Bec2Verif.Bf3

/-- `Bf2BinLine(fwtagtype, fwtagndx, fwtag, rawdata)` -/
structure Line where
  typ : Nat
  ndx : Nat
  tag : Bytes
  raw : Bytes
  deriving DecidableEq, Repr

/-- the value stored in `bf2_instrs[name]`: a parameter dict (`#>` line) or a string (`##` line) -/
inductive IVal where
  | params (p : List (Str × Str))
  | text (s : Str)
  deriving DecidableEq, Repr

inductive Obj where
  | load (lines : List Line)
  | instr (name : Str) (v : IVal)
  deriving Repr

/-! ### payload level -/

/-- one data line: `(offset relative to the first tag type's page, payload)`; `read(-n)` reads everything -/
def linePayload (startTyp : Nat) (l : Line) : Except Err (Int × Bytes) := do
  let (lenb, r1) ← readInt 1 l.tag
  let (offs, r2) ← readInt 2 r1
  let plen : Int := (lenb : Int) - 2
  let payload ← if plen < 0 then pure r2 else (do let (p, _) ← take plen.toNat r2; pure p)
  pure (((l.typ : Int) - (startTyp : Int)) * 0x10000 + offs, payload)

/-- state of the `bf2_unpack_payload` loop -/
structure UState where
  blocks : List (Int × Bytes)          -- the `blocks` dict (insertion ordered, keys unique)
  start : Option Int                   -- `cur_block_start_adr`
  endAdr : Int                         -- `cur_block_end_adr`
  cur : List Bytes                     -- `cur_block`

def dictSetI (d : List (Int × Bytes)) (k : Int) (v : Bytes) : List (Int × Bytes) :=
  if d.any (fun p => p.1 == k) then d.map (fun p => if p.1 == k then (k, v) else p) else d ++ [(k, v)]

def unpackStep (startTyp : Nat) (s : UState) (l : Line) : Except Err UState := do
  let (offs, payload) ← linePayload startTyp l
  -- payload_len as computed by the code (may be negative)
  let (lenb, _) ← readInt 1 l.tag
  let plen : Int := (lenb : Int) - 2
  let s1 : UState :=
    if offs != s.endAdr && !s.cur.isEmpty then
      { s with blocks := dictSetI s.blocks (s.start.getD 0) s.cur.flatten, cur := [payload], start := some offs }
    else { s with cur := s.cur ++ [payload] }
  let s2 := if s1.start.isNone then { s1 with start := some offs } else s1
  pure { s2 with endAdr := offs + plen }

def unpackLoop (startTyp : Nat) : List Line → UState → Except Err UState
  | [], s => .ok s
  | l :: ls, s => do let s' ← unpackStep startTyp s l; unpackLoop startTyp ls s'

/-- `bf2_unpack_payload`; `bf2lines[0]` on an empty list is an IndexError -/
def unpackPayload (lines : List Line) : Except Err (List (Int × Bytes)) :=
  match lines with
  | [] => .error .indexError
  | l0 :: _ => do
    let s ← unpackLoop l0.typ lines { blocks := [], start := none, endAdr := 0, cur := [] }
    pure (if s.cur.isEmpty then s.blocks else dictSetI s.blocks (s.start.getD 0) s.cur.flatten)

def insertByKey (p : Int × Bytes) : List (Int × Bytes) → List (Int × Bytes)
  | [] => [p]
  | x :: xs => if p.1 ≤ x.1 then p :: x :: xs else x :: insertByKey p xs

def sortBlocks : List (Int × Bytes) → List (Int × Bytes)
  | [] => []
  | x :: xs => insertByKey x (sortBlocks xs)

/-- `adr.to_bytes(4, "big")` for a possibly negative int -/
def intToBE4 (x : Int) : Except Err Bytes :=
  if x < 0 then .error .overflowError else toBytesBE 4 x.toNat

def memImage : List (Int × Bytes) → Except Err Bytes
  | [] => .ok []
  | (adr, data) :: r => do
    let a ← intToBE4 adr
    let l ← toBytesBE 4 data.length
    let rest ← memImage r
    pure (a ++ l ++ data ++ rest)

/-- `bf2_convert_payload(lines, fmt)` -/
def convertPayload (lines : List Line) (fmt : Nat) : Except Err Bytes :=
  if fmt = Gen.BF3FMT_BF2COMPATIBLE then .ok (lines.flatMap (·.raw))
  else if fmt = Gen.BF3FMT_BLOB then do
    let blocks ← unpackPayload lines
    match blocks with
    | [(adr, data)] => if adr = 0 then pure data else throw Err.formatBf3
    | _ => throw Err.formatBf3
  else if fmt = Gen.BF3FMT_MEMORYIMAGE then do
    let blocks ← unpackPayload lines
    memImage (sortBlocks blocks)
  else .error .notImplemented

/-! ### text level -/

/-- `BytesReader` fields of a `:` line -/
def parseBinLine (rdata : Bytes) : Except Err Line := do
  let (ndx, r1) ← readInt 2 rdata
  let (typ, r2) ← readInt 1 r1
  let (len, r3) ← readInt 1 r2
  let (tag, _) ← take len r3
  pure { typ := typ, ndx := ndx, tag := tag, raw := rdata }

/-- `s.split(sep)` for a one-character separator -/
def splitOnChar (sep : Char) : Str → List Str
  | [] => [[]]
  | c :: r => if c == sep then [] :: splitOnChar sep r else
    match splitOnChar sep r with
    | [] => [[c]]
    | h :: t => (c :: h) :: t

/-- `s.split(None, 1)`: at most two pieces, leading whitespace dropped, the rest keeps its tail -/
def splitWs1 (s : Str) : List Str :=
  let s1 := s.dropWhile isSpace
  if s1.isEmpty then [] else
  let w := s1.takeWhile (fun c => !isSpace c)
  let r := (s1.dropWhile (fun c => !isSpace c)).dropWhile isSpace
  if r.isEmpty then [w] else [w, r]

def dictSetStr {β : Type} (d : List (Str × β)) (k : Str) (v : β) : List (Str × β) :=
  if d.any (fun p => p.1 == k) then d.map (fun p => if p.1 == k then (k, v) else p) else d ++ [(k, v)]

/-- `dict(p.strip().split("=") for p in params_str.split(",") if p)` -/
def parseParams (ps : Str) : Except Err (List (Str × Str)) :=
  (splitOnChar ',' ps).foldlM (fun (acc : List (Str × Str)) p =>
    if p.isEmpty then pure acc else
    match splitOnChar '=' (strip p) with
    | [k, v] => pure (dictSetStr acc k v)
    | _ => throw Err.valueError) []

def startsWith (p s : Str) : Bool := s.take p.length == p

/-- one line of `parse_bf2_file`: updates the pending data lines and yields at most one object -/
def parseLine (fwdata : List Line) (line : Str) : Except Err (List Line × Option Obj) :=
  if startsWith [':'] line then do
    let rdata ← hex2bin line
    let l ← parseBinLine rdata
    if l.typ = 0xFF then
      pure (if fwdata.isEmpty then (fwdata, none) else ([], some (.load fwdata)))
    else if l.typ != 0xFE then pure (fwdata ++ [l], none)
    else pure (fwdata, none)
  else if startsWith ['#', '>'] line then
    match splitWs1 (line.drop 2) with
    | [] => .error .valueError
    | [cmd] => pure (fwdata, some (.instr cmd (.params [])))
    | [cmd, ps] => do let p ← parseParams ps; pure (fwdata, some (.instr cmd (.params p)))
    | _ => .error .valueError
  else if startsWith ['#', '#'] line then
    match splitOnChar ':' (line.drop 2) with
    | [name, value] => pure (fwdata, some (.instr name (.text (strip value))))
    | _ => .error .valueError
  else pure (fwdata, none)

/-- file iteration: lines keep their `\n` -/
def linesOf : Nat → Str → List Str
  | 0, _ => []
  | f+1, s => if s.isEmpty then [] else let (l, r) := readLine s; l :: linesOf f r

def parseFile (text : Str) : Except Err (List Obj) := do
  let (_, objs) ← (linesOf (text.length + 1) text).foldlM (fun (acc : List Line × List Obj) line => do
    let (fw, o) ← parseLine acc.1 line
    pure (fw, match o with | some x => acc.2 ++ [x] | none => acc.2)) ([], [])
  pure objs

/-! ### instruction execution -/

abbrev Instrs := List (Str × IVal)
abbrev Desc := List (Nat × Bytes)
abbrev Comments := List (Str × Str)

def descSet (d : Desc) (k : Nat) (v : Bytes) : Desc :=
  if d.any (fun p => p.1 == k) then d.map (fun p => if p.1 == k then (k, v) else p) else d ++ [(k, v)]

def idel (i : Instrs) (k : Str) : Instrs := i.filter (fun p => p.1 != k)

/-- `str[a:b]` for 0 ≤ a ≤ b -/
def slice (s : Str) (a b : Nat) : Str := (s.take b).drop a

def hexDigitVal (c : Char) : Option Nat :=
  match ConfigId.digitVal c with
  | some v => some v
  | none => if 'a' ≤ c ∧ c ≤ 'f' then some (c.toNat - 87) else if 'A' ≤ c ∧ c ≤ 'F' then some (c.toNat - 55) else none

/-- digits with single underscores between them, as `int()` accepts -/
def digitsVal (base : Nat) (dv : Char → Option Nat) : Str → Option Nat → Bool → Option Nat
  | [], acc, lastUnderscore => if lastUnderscore then none else acc
  | c :: r, acc, lastUnderscore =>
    if c == '_' then (if lastUnderscore || acc.isNone then none else digitsVal base dv r acc true)
    else match dv c with
      | some v => if v < base then digitsVal base dv r (some (acc.getD 0 * base + v)) false else none
      | none => none

/-- `int(s, base)` for base 10 or 16: surrounding whitespace, optional sign, optional `0x` for base 16; ValueError otherwise -/
def pyInt (base : Nat) (s : Str) : Except Err Int :=
  let s := strip s
  let (neg, s) := match s with
    | '-' :: r => (true, r)
    | '+' :: r => (false, r)
    | _ => (false, s)
  let s := if base = 16 then (match s with
    | '0' :: 'x' :: r => (if r.head? == some '_' then r.drop 1 else r)
    | '0' :: 'X' :: r => (if r.head? == some '_' then r.drop 1 else r)
    | _ => s) else s
  match digitsVal base (if base = 16 then hexDigitVal else ConfigId.digitVal) s none false with
  | some v => .ok (if neg then -(v : Int) else v)
  | none => .error .valueError

def intToBytes (n : Nat) (x : Int) : Except Err Bytes :=
  if x < 0 then .error .overflowError else toBytesBE n x.toNat

def hexUpperSpaced (b : Bytes) : Str :=
  match b with
  | [] => []
  | x :: xs => xs.foldl (fun acc y => acc ++ [' '] ++ hexUpper [y]) (hexUpper [x])

def lookupS {β : Type} (d : List (Str × β)) (k : Str) : Option β := (d.find? (fun p => p.1 == k)).map (·.2)

inductive ExecResult where
  | ok (d : Desc)
  | unsupported
  | error (e : Err)

def iparam (v : IVal) (k : Str) : Except Err Str :=
  match v with
  | .params p => (match lookupS p k with | some x => .ok x | none => .error .keyError)
  | .text _ => .error .typeError        -- `str["FILTER"]`: string indices must be integers

def itext (v : IVal) : Except Err Str :=
  match v with
  | .text s => .ok s
  | .params _ => .error .keyError       -- slicing a dict: KeyError on Python 3.12 (slices are hashable)

def typeOf (d : Desc) : Except Err Bytes := match d.lookup Gen.BF3TAG_TYPE with | some t => .ok t | none => .error .keyError

def slice' (b : Bytes) (a e : Nat) : Bytes := (b.take e).drop a

/-- a dict stored as comment value (never happens for well-formed input); the harness does not compare it -/
def paramsRepr (_ : List (Str × Str)) : Str := "<dict>".toList

/-! `exec_bf2instrs`, one definition per `if "<NAME>" in bf2_instrs:` block, in source order -/

/-- 1. REBOOT -/
def stepReboot (desc : Desc) (ins : Instrs) : Desc × Instrs :=
  if (lookupS ins "REBOOT".toList).isSome then (descSet desc Gen.BF3TAG_REBOOT [1], idel ins "REBOOT".toList) else (desc, ins)

/-- 2. CRC (`pop`, then `int(crcval[2:], 16).to_bytes(4, "big")`) -/
def stepCrc (desc : Desc) (ins : Instrs) : Except Err (Desc × Instrs) :=
  match lookupS ins "CRC".toList with
  | none => .ok (desc, ins)
  | some v => do
    let s ← itext v
    let x ← pyInt 16 (s.drop 2)
    let b ← intToBytes 4 x
    pure (descSet desc Gen.BF3TAG_CRC b, idel ins "CRC".toList)

/-- 3. SELECT -/
def stepSelect (desc : Desc) (ins : Instrs) : Except Err Desc :=
  match lookupS ins "SELECT".toList with
  | none => .ok desc
  | some v => do
    let f ← iparam v "FILTER".toList
    let pf ← hex2bin f
    let desc := descSet desc Gen.BF3TAG_PFID2 pf
    let t ← typeOf desc
    if t == [UInt8.ofNat Gen.BF3TYPE_PERIPHERAL] then
      let txt := hexUpperSpaced pf
      match Gen.PFID2_SPECIAL.find? (fun (p : String × Nat) => p.1.toList == txt) with
      | some (_, hw) => do let hb ← toBytesBE 2 hw; pure (descSet desc Gen.BF3TAG_HWCID hb)
      | none => if startsWith "01 01".toList txt then pure (descSet desc Gen.BF3TAG_HWCID (pf.drop (pf.length - 2)))
                else throw Err.formatBf3
    else pure desc

/-- 4. CHECK_FWVER (`pop`) -/
def stepFwver (desc : Desc) (ins : Instrs) : Except Err (Desc × Instrs) :=
  match lookupS ins "CHECK_FWVER".toList with
  | none => .ok (desc, ins)
  | some v =>
    let ins' := idel ins "CHECK_FWVER".toList
    match iparam v "VERSIONDESC".toList with
    | .error e => .error e
    | .ok vd =>
      if vd == ['*'] then .ok (desc, ins') else
      match hex2bin vd with
      | .error e => .error e
      | .ok ver =>
        match ver[2]? with
        | none => .error .indexError
        | some n => .ok (descSet desc Gen.BF3TAG_FWVER (slice' ver 3 (3 + n.toNat)), ins')

/-- 5a. Firmware: the two comments (set before anything can fail) -/
def stepFirmwareCm (ins : Instrs) (cm : Comments) : Except Err Comments :=
  match lookupS ins "Firmware".toList with
  | none => .ok cm
  | some v => do
    let f ← itext v
    pure (dictSetStr (dictSetStr cm "FirmwareId".toList (slice f 0 4)) "FirmwareVersion".toList (slice f 15 22))

/-- 5b. Firmware: the version tag -/
def stepFirmware (desc : Desc) (ins : Instrs) : Except Err Desc :=
  match lookupS ins "Firmware".toList with
  | none => .ok desc
  | some v => do
    let f ← itext v
    let fwver := slice f 15 22
    if startsWith "D-".toList fwver then pure desc else do
      let idn ← pyInt 10 (slice f 0 4)
      let idb ← intToBytes 2 idn
      let parts ← (splitOnChar '.' fwver).mapM (pyInt 10)
      let vb ← parts.mapM (fun (x : Int) => if x < 0 ∨ x > 255 then Except.error Err.valueError else Except.ok (UInt8.ofNat x.toNat))
      let t ← typeOf desc
      if t == [UInt8.ofNat Gen.BF3TYPE_LOADER] || t == [UInt8.ofNat Gen.BF3TYPE_MAIN] then pure (descSet desc Gen.BF3TAG_FWVER (idb ++ vb))
      else pure desc

/-- 6. Creator -/
def stepCreator (ins : Instrs) (cm : Comments) : Except Err Comments :=
  match lookupS ins "Creator".toList with
  | none => .ok cm
  | some (.text s) => .ok (dictSetStr cm "Creator".toList (s ++ " + bf2-to-bf3-converter".toList))
  | some (.params _) => .error .typeError

/-- 7. Bf3Update -/
def stepBf3Update (ins : Instrs) (cm : Comments) : Comments :=
  match lookupS ins "Bf3Update".toList with
  | none => cm
  | some (.text s) => dictSetStr cm "Bf3Update".toList s
  | some (.params p) => dictSetStr cm "Bf3Update".toList (paramsRepr p)

/-- 8. SELECT_IF -/
def stepSelectIf (desc : Desc) (ins : Instrs) : ExecResult :=
  match lookupS ins "SELECT_IF".toList with
  | none => .ok desc
  | some v =>
    match iparam v "PROTOCOL".toList with
    | .error e => .error e
    | .ok proto =>
      if proto == ['*'] then .ok desc else
      match Gen.BF2_INTERFACES.find? (fun (p : String × Nat) => p.1.toList == proto) with
      | none => .unsupported
      | some (_, n) => .ok (descSet desc Gen.BF3TAG_INTF [UInt8.ofNat n])

/-- `exec_bf2instrs`: returns the remaining instructions and the comments even when it stops early -/
def execInstrs (ins : Instrs) (desc : Desc) (cm : Comments) : ExecResult × Instrs × Comments :=
  let r := stepReboot desc ins
  match stepCrc r.1 r.2 with
  | .error e => (.error e, idel r.2 "CRC".toList, cm)
  | .ok (desc, ins) =>
  match stepSelect desc ins with
  | .error e => (.error e, ins, cm)
  | .ok desc =>
  match stepFwver desc ins with
  | .error e => (.error e, idel ins "CHECK_FWVER".toList, cm)
  | .ok (desc, ins) =>
  match stepFirmwareCm ins cm with
  | .error e => (.error e, ins, cm)
  | .ok cm =>
  match stepFirmware desc ins with
  | .error e => (.error e, ins, cm)
  | .ok desc =>
  match stepCreator ins cm with
  | .error e => (.error e, ins, cm)
  | .ok cm =>
  let cm := stepBf3Update ins cm
  (stepSelectIf desc ins, ins, cm)

/-! ### annotations and the platform filter -/

def hex4Upper (n : Nat) : Str := hexUpper [UInt8.ofNat (n / 256), UInt8.ofNat (n % 256)]

def joinWith (sep : Str) : List Str → Str
  | [] => []
  | [x] => x
  | x :: xs => x ++ sep ++ joinWith sep xs

def hwcName (h : Nat) : Option Str := (Gen.REV_HWCID_MAP.find? (fun p => p.1 == h)).map (·.2.toList)

/-- one filter entry: the component's name or `0xHHHH`, with `!` when bit 14 is set -/
def entryName (e : Nat) : Str :=
  let hw := e % 0x4000
  let nm := match hwcName hw with | some n => n | none => "0x".toList ++ hex4Upper hw
  if e / 0x4000 % 2 = 1 then '!' :: nm else nm

def pfid2Loop : Bytes → List Str → List Str → List Str
  | hi :: lo :: r, groups, cur =>
    let e := hi.toNat * 256 + lo.toNat
    let cur := cur ++ [entryName e]
    if e / 0x8000 % 2 = 0 then
      pfid2Loop r (groups ++ [if cur.length = 1 then joinWith [] cur else ['('] ++ joinWith " | ".toList cur ++ [')']]) []
    else pfid2Loop r groups cur
  | _, groups, _ => groups

/-- `pfid2_filter_to_str` -/
def pfid2FilterToStr (f : Bytes) : Except Err Str :=
  match f with
  | a :: n :: r => if a != 1 || 2 + n.toNat * 2 != f.length then .error .formatBf3 else .ok (joinWith " & ".toList (pfid2Loop r [] []))
  | _ => .error .formatBf3

def decimalStr (n : Nat) : Str := ConfigId.decimal n

def hexNoPad (n : Nat) : Str :=
  let rec go : Nat → Nat → Str → Str
    | 0, _, acc => acc
    | f+1, m, acc => if m < 16 then hexDigitUpper m :: acc else go f (m / 16) (hexDigitUpper (m % 16) :: acc)
  go (n + 1) n []

/-- loader: `rev_intf_map[intf] + " Loader Firmware"` -/
def loaderName (c : Comp) : Except Err Str :=
  match c.desc.lookup Gen.BF3TAG_INTF with
  | none => .error .formatBf3            -- `if BF3TAG.INTF not in comp.description: raise Bf3FileFormatError`
  | some b =>
    match Gen.REV_INTF_MAP.find? (fun p => p.1 == fromBE b) with
    | some (_, n) => .ok (n.toList ++ " Loader Firmware".toList)
    | none => .error .keyError

/-- the version suffix of a peripheral's comment -/
def versionStr (name : Str) (ver : Option Bytes) : Except Err Str :=
  match ver with
  | none => .ok []
  | some [] => .ok []
  | some v =>
    if name.take 2 == "SM".toList && v.length ≥ 4 then
      .ok (' ' :: joinWith ['.'] ((v.take 4).map (fun b => decimalStr b.toNat)))
    else if name.take 3 == "BGM".toList && v.length ≥ 7 then
      (match ConfigId.decodeUtf8 v with
        | some s => .ok (" Version ".toList ++ s)
        | none => .error .unicodeError)
    else .ok (" Version ".toList ++ hexUpper v)

def peripheralName (c : Comp) : Except Err Str :=
  match c.desc.lookup Gen.BF3TAG_HWCID with
  | none => .error .keyError
  | some b =>
    let h := fromBE b
    let name := match hwcName h with | some n => n | none => "HWC 0x".toList ++ hexNoPad h
    versionStr name (c.desc.lookup Gen.BF3TAG_FWVER) >>= fun ver => .ok (name ++ " Firmware".toList ++ ver)

def baseName (c : Comp) : Except Err Str :=
  match c.desc.lookup Gen.BF3TAG_TYPE with
  | none => .error .keyError
  | some tb =>
    let t := fromBE tb
    if t = Gen.BF3TYPE_MAIN then .ok "Main Firmware".toList
    else if t = Gen.BF3TYPE_LOADER then loaderName c
    else if t = Gen.BF3TYPE_PERIPHERAL then peripheralName c
    else .error .formatBf3

/-- one `Component<i>` comment of `annotations` -/
def annotation (c : Comp) : Except Err Str :=
  baseName c >>= fun base =>
  match c.desc.lookup Gen.BF3TAG_PFID2 with
  | none => .ok base
  | some f => pfid2FilterToStr f >>= fun s => .ok (base ++ "    [PFID2-Filter: ".toList ++ s ++ [']'])

/-! ### the importer -/

structure IState where
  fwdata : List Line
  instrs : Instrs
  comps : List Comp
  comments : Comments

/-- the description `emit_bf3comp` starts from: FMT, TYPE and, when the tag-type map has them, HWCID and INTF -/
def desc0 (ty fmtN : Nat) (hw intf : Option Nat) : Desc :=
  [(Gen.BF3TAG_FMT, [UInt8.ofNat fmtN]), (Gen.BF3TAG_TYPE, [UInt8.ofNat ty])]
    ++ (match hw with | some h => [(Gen.BF3TAG_HWCID, toBE 2 h)] | none => [])
    ++ (match intf with | some i => [(Gen.BF3TAG_INTF, [UInt8.ofNat i])] | none => [])

/-- `emit_bf3comp()` -/
def emit (s : IState) : Except Err IState :=
  match s.fwdata with
  | [] => .error .formatBf3           -- `if not bf2_fwdata: raise Bf3FileFormatError`
  | l0 :: _ =>
    match Gen.BF2_TAGTYPE_MAP.lookup l0.typ with
    | none => .error .unsupportedTagType
    | some (none, _, _, _) => .ok s
    | some (some ty, hw, fmt, intf) =>
      let fmtN := fmt.getD 0
      match execInstrs s.instrs (desc0 ty fmtN hw intf) s.comments with
      | (.unsupported, ins, cm) => .ok { s with instrs := ins, comments := cm }
      | (.error e, _, _) =>
        if e == .valueError || e == .indexError || e == .keyError || e == .typeError || e == .overflowError
            || e == .formatBf3 then .error .formatBf3 else .error e
      | (.ok d, ins, cm) => do
        let content ← convertPayload s.fwdata fmtN
        pure { fwdata := [], instrs := ins, comps := s.comps ++ [mkComp d content none false], comments := cm }

def isKnownTagtype (t : Nat) : Bool := Gen.KNOWN_TAGTYPES.contains t

/-- the pending data belongs to an ignored tag (prepare / activate): it has no continuation pages -/
def afterIgnored (s : IState) : Bool :=
  match s.fwdata with
  | [] => false
  | f0 :: _ =>
    match Gen.BF2_TAGTYPE_MAP.lookup f0.typ with
    | some (none, _, _, _) => true
    | _ => false

def importStep (s : IState) (o : Obj) : Except Err IState :=
  match o with
  | .load lines =>
    match lines with
    | [] => .error .indexError
    | l0 :: _ =>
      if !isKnownTagtype l0.typ then .error .formatBf3 else
      if ((Gen.BF2_TAGTYPE_MAP.lookup l0.typ).isSome || afterIgnored s) && !s.fwdata.isEmpty then do
        let s' ← emit s
        pure { s' with fwdata := lines }
      else pure { s with fwdata := s.fwdata ++ lines }
  | .instr name v =>
    (if name == "CHECK_FWVER".toList && (lookupS s.instrs "CHECK_FWVER".toList).isSome then emit s else .ok s) >>= fun s1 =>
    if name == "REBOOT".toList then emit { s1 with instrs := dictSetStr s1.instrs name v }
    else .ok { s1 with instrs := dictSetStr s1.instrs name v }

def insertByType (c : Comp) : List Comp → List Comp
  | [] => [c]
  | x :: xs => if !bytesLt (typeKey x) (typeKey c) then c :: x :: xs else x :: insertByType c xs
where
  typeKey (c : Comp) : Bytes := (c.desc.lookup Gen.BF3TAG_TYPE).getD []
  bytesLt : Bytes → Bytes → Bool
    | [], [] => false
    | [], _ :: _ => true
    | _ :: _, [] => false
    | a :: as, b :: bs => a < b || (a == b && bytesLt as bs)

/-- stable sort by the TYPE byte string -/
def sortComps (cs : List Comp) : List Comp := cs.foldr insertByType []

def annotate : Nat → List Comp → Comments → Except Err Comments
  | _, [], cm => .ok cm
  | i, c :: cs, cm => do
    let a ← annotation c
    annotate (i + 1) cs (dictSetStr cm ("Component".toList ++ decimalStr i) a)

/-- `parse_bf2_file` inside its `try`: `ValueError`, `IndexError`, `KeyError` become the format error -/
def parseObjs (text : Str) : Except Err (List Obj) :=
  match parseFile text with
  | .ok o => .ok o
  | .error e => if e == .valueError || e == .indexError || e == .keyError then .error .formatBf3 else .error e

/-- what follows the object loop: last section, legacy check, sort, annotate -/
def finish (enforce : Bool) (s : IState) : Except Err (Comments × List Comp) :=
  (if s.fwdata.isEmpty then .ok s else emit s) >>= fun s =>
  if enforce && (lookupS s.comments "Bf3Update".toList).isNone then .error .unsupportedLegacy else
  annotate 0 (sortComps s.comps) s.comments >>= fun cm => .ok (cm, sortComps s.comps)

/-- `bf2_import(text, enforce_bf3_compatibility)` -/
def bf2Import (text : Str) (enforce : Bool) : Except Err (Comments × List Comp) :=
  parseObjs text >>= fun objs =>
  objs.foldlM importStep { fwdata := [], instrs := [], comps := [], comments := [] } >>= fun s =>
  finish enforce s

end Bec2Verif.Bf2
