import Bec2Verif.Model.Ec
import Bec2Verif.Model.Bec2
import Bec2Verif.Gen.Curves
/-!
The registered ECC plug-in (`appnotes/register_crypto_plugin/__init__.py:40-78`) on NIST P-256,
expressed through the python-ecdsa model of `Model/Ec.lean`.
-/
namespace Bec2Verif.P256
open Bec2Verif Ec

def rec := Gen.NIST256p
def curve : Curve := { p := rec.p, a := rec.a, b := rec.b }
def G : Pt := .jac rec.gx rec.gy 1

def be32 (x : Int) : Bytes := toBE 32 x.toNat

def rawOf (xy : Int × Int) : Bytes := be32 xy.1 ++ be32 xy.2

/-- `SigningKey(secexp = d).verifying_key` as raw `x‖y`: generator multiplication (precomputed table) -/
def pubOf (d : Nat) : Except Err Bytes :=
  match mulGen curve rec.n G d with
  | some P => match toAffine curve P with
    | some (some xy) => .ok (rawOf xy)
    | _ => .error .malformedPoint
  | none => .error .valueError

/-- `create_public_ecc_key_from_raw_fmt(raw)` = plug-in `create_from_der_fmt(header ++ raw)`: on curve and in
range, else python-ecdsa's `MalformedPointError`/`UnexpectedDER`, which the plug-in converts to `ValueError` -/
def loadRaw (raw : Bytes) : Except Err Bytes :=
  if raw.length != 64 then .error .valueError else
  let x : Int := fromBE (raw.take 32)
  let y : Int := fromBE (raw.drop 32)
  if x < curve.p && y < curve.p && containsPoint curve x y then .ok raw else .error .valueError

/-- `ECDH(...).generate_sharedsecret_bytes()` -/
def dh (d : Nat) (pub : Bytes) : Except Err Bytes := do
  let raw ← loadRaw pub
  let x : Int := fromBE (raw.take 32)
  let y : Int := fromBE (raw.drop 32)
  match mulNaf curve rec.n (.jac x y 1) d with
  | some P => match toAffine curve P with
    | some (some xy) => .ok (be32 xy.1)
    | some none => .error .invalidSharedSecret
    | none => .error .valueError
  | none => .error .valueError

def ecc : Bec2.Ecc := { pubOf := pubOf, loadRaw := loadRaw, dh := dh }

def env : Bec2.Env := { C := aesCrypto, E := ecc, sha := Sha256.sha256 }

end Bec2Verif.P256
