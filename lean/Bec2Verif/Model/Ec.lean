import Bec2Verif.Model.Bytes
/-!
Model of the short-Weierstrass arithmetic of the bundled python-ecdsa 0.18
(`appnotes/register_crypto_plugin/ecdsa/ellipticcurve.py`, class `PointJacobi`),
on `Int` exactly as the code computes: which `% p` is taken where, and which
zero tests are on *unreduced* integers.  Python `%` with a positive modulus is
`Int.emod` (Lean's `%` on `Int`), `//` is `Int.fdiv`.
-/
namespace Bec2Verif.Ec

structure Curve where
  p : Int
  a : Int
  b : Int
  deriving DecidableEq, Repr

/-- a `PointJacobi` object's `__coords`, or the module-level `INFINITY` -/
inductive Pt where
  | inf
  | jac (X Y Z : Int)
  deriving DecidableEq, Repr

abbrev Triple := Int × Int × Int

/-- `pow(a, -1, m)` of CPython ≥ 3.8 through extended Euclid; `none` = ValueError (not invertible) -/
def egcd : Nat → Int → Int → Int → Int → Int × Int
  | 0, r0, _, s0, _ => (r0, s0)
  | fuel+1, r0, r1, s0, s1 =>
    if r1 == 0 then (r0, s0) else
    let q := r0 / r1
    egcd fuel r1 (r0 - q * r1) s1 (s0 - q * s1)

/-- `numbertheory.inverse_mod(a, m)`: 0 for 0, else the modular inverse in `[0, m)` -/
def inverseMod (a m : Int) : Option Int :=
  if a == 0 then some 0 else
  let a' := a % m
  let (g, s) := egcd (2 * m.toNat.log2 + 4) a' m 1 0
  if g == 1 then some (s % m) else none

/-- `_double_with_z_1` -/
def doubleZ1 (X1 Y1 p a : Int) : Triple :=
  let XX := X1 * X1 % p
  let YY := Y1 * Y1 % p
  if YY == 0 then (0, 0, 1) else
  let YYYY := YY * YY % p
  let S := 2 * ((X1 + YY) ^ 2 - XX - YYYY) % p
  let M := 3 * XX + a
  let T := (M * M - 2 * S) % p
  let Y3 := (M * (S - T) - 8 * YYYY) % p
  let Z3 := 2 * Y1 % p
  (T, Y3, Z3)

/-- `_double` -/
def double_ (X1 Y1 Z1 p a : Int) : Triple :=
  if Z1 == 1 then doubleZ1 X1 Y1 p a else
  if Y1 == 0 || Z1 == 0 then (0, 0, 1) else
  let XX := X1 * X1 % p
  let YY := Y1 * Y1 % p
  if YY == 0 then (0, 0, 1) else
  let YYYY := YY * YY % p
  let ZZ := Z1 * Z1 % p
  let S := 2 * ((X1 + YY) ^ 2 - XX - YYYY) % p
  let M := (3 * XX + a * ZZ * ZZ) % p
  let T := (M * M - 2 * S) % p
  let Y3 := (M * (S - T) - 8 * YYYY) % p
  let Z3 := ((Y1 + Z1) ^ 2 - YY - ZZ) % p
  (T, Y3, Z3)

/-- `_add_with_z_1` (after the repair of D10 the zero tests are on reduced values) -/
def addZ1 (X1 Y1 X2 Y2 p a : Int) : Triple :=
  let H := X2 - X1
  let HH := H * H
  let I := 4 * HH % p
  let J := H * I
  let r := 2 * (Y2 - Y1)
  if H % p == 0 && r % p == 0 then doubleZ1 X1 Y1 p a else
  let V := X1 * I
  let X3 := (r ^ 2 - J - 2 * V) % p
  let Y3 := (r * (V - X3) - 2 * Y1 * J) % p
  let Z3 := 2 * H % p
  (X3, Y3, Z3)

/-- `_add_with_z_eq` -/
def addZeq (X1 Y1 Z1 X2 Y2 p a : Int) : Triple :=
  let A := (X2 - X1) ^ 2 % p
  let B := X1 * A % p
  let C := X2 * A
  let D := (Y2 - Y1) ^ 2 % p
  if A == 0 && D == 0 then double_ X1 Y1 Z1 p a else
  let X3 := (D - B - C) % p
  let Y3 := ((Y2 - Y1) * (B - X3) - Y1 * (C - B)) % p
  let Z3 := Z1 * (X2 - X1) % p
  (X3, Y3, Z3)

/-- `_add_with_z2_1` -/
def addZ2_1 (X1 Y1 Z1 X2 Y2 p a : Int) : Triple :=
  let Z1Z1 := Z1 * Z1 % p
  let U2 := X2 * Z1Z1 % p
  let S2 := Y2 * Z1 * Z1Z1 % p
  let H := (U2 - X1) % p
  let HH := H * H % p
  let I := 4 * HH % p
  let J := H * I
  let r := 2 * (S2 - Y1) % p
  if r == 0 && H == 0 then doubleZ1 X2 Y2 p a else
  let V := X1 * I
  let X3 := (r * r - J - 2 * V) % p
  let Y3 := (r * (V - X3) - 2 * Y1 * J) % p
  let Z3 := ((Z1 + H) ^ 2 - Z1Z1 - HH) % p
  (X3, Y3, Z3)

/-- `_add_with_z_ne` (after the repair of D10 `H` is reduced before the zero test) -/
def addZne (X1 Y1 Z1 X2 Y2 Z2 p a : Int) : Triple :=
  let Z1Z1 := Z1 * Z1 % p
  let Z2Z2 := Z2 * Z2 % p
  let U1 := X1 * Z2Z2 % p
  let U2 := X2 * Z1Z1 % p
  let S1 := Y1 * Z2 * Z2Z2 % p
  let S2 := Y2 * Z1 * Z1Z1 % p
  let H := U2 - U1
  let I := 4 * H * H % p
  let J := H * I % p
  let r := 2 * (S2 - S1) % p
  if H == 0 && r == 0 then double_ X1 Y1 Z1 p a else
  let V := U1 * I
  let X3 := (r * r - J - 2 * V) % p
  let Y3 := (r * (V - X3) - 2 * S1 * J) % p
  let Z3 := ((Z1 + Z2) ^ 2 - Z1Z1 - Z2Z2) * H % p
  (X3, Y3, Z3)

/-- `_add`: dispatch on the scalings; infinity is `Y = 0 ∨ Z = 0` -/
def add_ (X1 Y1 Z1 X2 Y2 Z2 p a : Int) : Triple :=
  if Y1 == 0 || Z1 == 0 then (X2, Y2, Z2) else
  if Y2 == 0 || Z2 == 0 then (X1, Y1, Z1) else
  if Z1 == Z2 then
    if Z1 == 1 then addZ1 X1 Y1 X2 Y2 p a else addZeq X1 Y1 Z1 X2 Y2 p a
  else if Z1 == 1 then addZ2_1 X2 Y2 Z2 X1 Y1 p a
  else if Z2 == 1 then addZ2_1 X1 Y1 Z1 X2 Y2 p a
  else addZne X1 Y1 Z1 X2 Y2 Z2 p a

/-- result wrapper used by `double`, `__add__`, `__mul__`: `if not Y3 or not Z3: INFINITY` -/
def wrap (t : Triple) : Pt := if t.2.1 == 0 || t.2.2 == 0 then .inf else .jac t.1 t.2.1 t.2.2

/-- `PointJacobi.__eq__(INFINITY)` -/
def isInf : Pt → Bool
  | .inf => true
  | .jac _ Y Z => Y == 0 || Z == 0

/-- `double()` -/
def double (c : Curve) : Pt → Pt
  | .inf => .inf
  | .jac X Y Z => if Y == 0 then .inf else wrap (double_ X Y Z c.p c.a)

/-- `__add__` on two points of the same curve -/
def add (c : Curve) (P Q : Pt) : Pt :=
  if isInf P then Q else if isInf Q then P else
  match P, Q with
  | .jac X1 Y1 Z1, .jac X2 Y2 Z2 => wrap (add_ X1 Y1 Z1 X2 Y2 Z2 c.p c.a)
  | _, _ => .inf

/-- `__neg__` stores `-y` unreduced -/
def neg : Pt → Pt
  | .inf => .inf
  | .jac X Y Z => .jac X (-Y) Z

/-- `_naf`, least significant digit first -/
def naf : Nat → Int → List Int
  | 0, _ => []
  | fuel+1, m =>
    if m == 0 then [] else
    if m % 2 != 0 then
      let nd := if m % 4 >= 2 then m % 4 - 4 else m % 4
      nd :: naf fuel (Int.fdiv (m - nd) 2)
    else 0 :: naf fuel (Int.fdiv m 2)

def nafOf (m : Int) : List Int := naf (m.natAbs.log2 + 3) m

/-- `scale()`: affine representative with `z = 1` (`none`: `z` not invertible — ValueError from `pow`) -/
def scale (c : Curve) (X Y Z : Int) : Option Triple :=
  if Z == 1 then some (X, Y, Z) else
  match inverseMod Z c.p with
  | none => none
  | some zi =>
    let zzi := zi * zi % c.p
    some (X * zzi % c.p, Y * zzi * zi % c.p, 1)

/-- the double-and-add loop of `__mul__` over the reversed NAF, accumulator `(X3,Y3,Z3)` -/
def mulLoop (c : Curve) (X2 Y2 : Int) : List Int → Triple → Triple
  | [], acc => acc
  | i :: rest, (X3, Y3, Z3) =>
    let (X3, Y3, Z3) := double_ X3 Y3 Z3 c.p c.a
    let acc :=
      if i < 0 then add_ X3 Y3 Z3 X2 (-Y2) 1 c.p c.a
      else if i > 0 then add_ X3 Y3 Z3 X2 Y2 1 c.p c.a
      else (X3, Y3, Z3)
    mulLoop c X2 Y2 rest acc

/-- `__mul__` without a precomputed table (`order` = the point's `__order`, 0 for None) -/
def mulNaf (c : Curve) (order : Int) (P : Pt) (k : Int) : Option Pt :=
  match P with
  | .inf => some .inf
  | .jac X Y Z =>
    if Y == 0 || k == 0 then some .inf else
    if k == 1 then some P else
    let k := if order != 0 then k % (order * 2) else k
    match scale c X Y Z with
    | none => none
    | some (X2, Y2, _) =>
      some (wrap (mulLoop c X2 Y2 (nafOf k).reverse (0, 0, 1)))

/-- `_maybe_precompute`: `(x, y)` of `2^i · G`, built by `doubler.double().scale()` -/
def precomputeLoop (c : Curve) : Nat → Int → Int → Triple → List (Int × Int) → Option (List (Int × Int))
  | 0, _, _, _, acc => some acc.reverse
  | fuel+1, i, order, (X, Y, Z), acc =>
    if i < order then
      -- doubler = doubler.double().scale()
      match double c (.jac X Y Z) with
      | .inf => none      -- AttributeError in the code ('Point' INFINITY has no scale); unreachable for prime order
      | .jac X' Y' Z' =>
        match scale c X' Y' Z' with
        | none => none
        | some (x, y, z) => precomputeLoop c fuel (i * 2) order (x, y, z) ((x, y) :: acc)
    else some acc.reverse

def affineXY (c : Curve) (X Y Z : Int) : Option (Int × Int) :=
  if Z == 1 then some (X, Y) else
  match inverseMod Z c.p with
  | none => none
  | some zi => some (X * zi ^ 2 % c.p, Y * zi ^ 3 % c.p)

def precompute (c : Curve) (order : Int) (X Y Z : Int) : Option (List (Int × Int)) :=
  match affineXY c X Y Z with
  | none => none
  | some (x, y) =>
    precomputeLoop c ((order * 4).toNat.log2 + 3) 1 (order * 4) (X, Y, Z) [(x, y)]

/-- `_mul_precompute` -/
def mulPrecompLoop (c : Curve) : List (Int × Int) → Int → Triple → Triple
  | [], _, acc => acc
  | (X2, Y2) :: rest, k, (X3, Y3, Z3) =>
    if k % 2 != 0 then
      if k % 4 >= 2 then
        mulPrecompLoop c rest (Int.fdiv (k + 1) 2) (add_ X3 Y3 Z3 X2 (-Y2) 1 c.p c.a)
      else
        mulPrecompLoop c rest (Int.fdiv (k - 1) 2) (add_ X3 Y3 Z3 X2 Y2 1 c.p c.a)
    else mulPrecompLoop c rest (Int.fdiv k 2) (X3, Y3, Z3)

/-- `__mul__` of a generator point (precomputed table) -/
def mulGen (c : Curve) (order : Int) (P : Pt) (k : Int) : Option Pt :=
  match P with
  | .inf => some .inf
  | .jac X Y Z =>
    if Y == 0 || k == 0 then some .inf else
    if k == 1 then some P else
    let k := if order != 0 then k % (order * 2) else k
    match precompute c order X Y Z with
    | none => none
    | some tab => some (wrap (mulPrecompLoop c tab k (0, 0, 1)))

/-- `to_affine()` / `x()`, `y()` -/
def toAffine (c : Curve) : Pt → Option (Option (Int × Int))
  | .inf => some none
  | .jac X Y Z =>
    if Y == 0 || Z == 0 then some none else
    (affineXY c X Y Z).map some

/-- `CurveFp.contains_point` -/
def containsPoint (c : Curve) (x y : Int) : Bool := (y * y - ((x * x + c.a) * x + c.b)) % c.p == 0

end Bec2Verif.Ec
