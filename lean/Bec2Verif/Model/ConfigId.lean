import Bec2Verif.Model.Text
/-!
Model of `bec2format/configid.py`: identifier from project / device settings, printing, parsing
(the two `re.match` patterns as hand-written matchers with leftmost/greedy/backtracking semantics
for exactly these patterns).
-/
namespace Bec2Verif.ConfigId
open Bec2Verif Bec2Verif.Text

/-- `ConfDict`: insertion-ordered `{(key, value_or_None): content_or_None}` -/
abbrev ConfDict := List ((Nat × Option Nat) × Option Bytes)

/-- `config[k, v]` → the content bytes; `none` = KeyError (a `None` content is not bytes: also treated as absent here,
generators never store None under the naming ids) -/
def cfgGet (d : ConfDict) (k v : Nat) : Option Bytes :=
  match d.lookup (k, some v) with
  | some (some c) => some c
  | _ => none

structure Id where
  customer : Option Nat
  project : Option Nat
  device : Option Nat
  version : Nat
  name : Option Str
  deriving DecidableEq, Repr

def unk (x : Option Nat) : Option Nat := if x == some Gen.UNKNOWN then none else x

/-- `ConfigId.__init__`: 9999 ↦ None for customer, project, device -/
def mk (c p d : Option Nat) (v : Nat) (n : Option Str) : Id :=
  { customer := unk c, project := unk p, device := unk d, version := v, name := n }

/-- `bytes.decode()` (UTF-8, strict); `none` = UnicodeDecodeError -/
def decodeUtf8 (b : Bytes) : Option Str := (String.fromUTF8? (ByteArray.mk b.toArray)).map String.toList

def nameOf (d : ConfDict) (v : Nat) : Except Err (Option Str) :=
  match cfgGet d 0x620 v with
  | none => .ok none
  | some b => match decodeUtf8 b with
    | some s => .ok (some s)
    | none => .error .unicodeError

def truthy (n : Option Str) : Bool := match n with | some (_ :: _) => true | _ => false

/-- `create_from_prj_settings` -/
def fromPrj (d : ConfDict) : Except Err Id :=
  match cfgGet d 0x620 0x07 with
  | none => .error .missingPrjName
  | some vb => do
    let name ← nameOf d 0x06
    match cfgGet d 0x620 0x01, cfgGet d 0x620 0x05 with
    | some c, some p =>
      let dev := (cfgGet d 0x620 0x02).getD [0, 0]
      pure (mk (some (fromBE c)) (some (fromBE p)) (some (fromBE dev)) (fromBE vb) name)
    | _, _ => if truthy name then pure (mk none none none (fromBE vb) name) else throw Err.missingPrjName

/-- `create_from_dev_settings` -/
def fromDev (d : ConfDict) : Except Err Id :=
  match cfgGet d 0x620 0x04 with
  | none => .error .missingDevName
  | some vb => do
    let name ← nameOf d 0x03
    match cfgGet d 0x620 0x01 with
    | some c =>
      let dev := (cfgGet d 0x620 0x02).getD [0, 0]
      pure (mk (some (fromBE c)) (some 0) (some (fromBE dev)) (fromBE vb) name)
    | none => if truthy name then pure (mk none (some 0) none (fromBE vb) name) else throw Err.missingDevName

def digitsAux : Nat → Nat → List Char → List Char
  | 0, _, acc => acc
  | fuel+1, n, acc => if n < 10 then Char.ofNat (48 + n) :: acc else digitsAux fuel (n / 10) (Char.ofNat (48 + n % 10) :: acc)

def decimal (n : Nat) : Str := digitsAux (n + 1) n []

def digitChar (d : Nat) : Char := Char.ofNat (48 + d)

/-- the `w` low decimal digits of `n`, most significant first -/
def fixedDigits : Nat → Nat → List Char
  | 0, _ => []
  | w+1, n => fixedDigits w (n / 10) ++ [digitChar (n % 10)]

/-- `format(n, "0{w}")` for a non-negative int: zero padded to width `w`, longer when it does not fit -/
def pad0 (w n : Nat) : Str := if n < 10 ^ w then fixedDigits w n else decimal n

/-- `cfgid_str` (baltech naming scheme only) -/
def cfgidStr (i : Id) (c : Nat) : Str :=
  let p := i.project.getD Gen.UNKNOWN
  let dev := if i.device == some 0 then ['0', '0', '0', '0'] else pad0 4 (i.device.getD Gen.UNKNOWN)
  pad0 5 c ++ ['-'] ++ pad0 4 p ++ ['-'] ++ dev ++ ['-'] ++ pad0 2 i.version

/-- `" " + name if name else ""` -/
def nameSuffix : Option Str → Str
  | some (h :: t) => ' ' :: h :: t
  | _ => []

/-- the text `" (version "` -/
def versionPrefix : Str := [' ', '(', 'v', 'e', 'r', 's', 'i', 'o', 'n', ' ']

def nameOrNone : Option Str → Str
  | some n => n
  | none => ['N', 'o', 'n', 'e']

/-- `__str__` -/
def toStr (i : Id) : Str :=
  match i.customer with
  | some c => cfgidStr i c ++ nameSuffix i.name
  | none => nameOrNone i.name ++ versionPrefix ++ pad0 2 i.version ++ [')']

/-- `\d` of `re` / digits accepted by `int()`: value of a Unicode decimal digit -/
def digitVal (c : Char) : Option Nat :=
  match Gen.re_digit_ranges.find? (fun r => r.1 ≤ c.toNat && c.toNat ≤ r.2) with
  | some r => some ((c.toNat - r.1) % 10)
  | none => none

/-- exactly `n` digits at the front: their value and the rest -/
def takeDigits : Nat → Str → Nat → Option (Nat × Str)
  | 0, s, acc => some (acc, s)
  | n+1, c :: s, acc => match digitVal c with
    | some v => takeDigits n s (acc * 10 + v)
    | none => none
  | _+1, [], _ => none

def expect (c : Char) : Str → Option Str
  | x :: s => if x == c then some s else none
  | [] => none

def firstLine : Str → Str
  | [] => []
  | c :: s => if c == '\n' then [] else c :: firstLine s

/-- pattern 1: `(\d{5})-(\d{4})-(\d{4})-(\d{2})( (.*))?` anchored at the start -/
def match1 (s : Str) : Option (Nat × Nat × Nat × Nat × Option Str) := do
  let (c, s) ← takeDigits 5 s 0
  let s ← expect '-' s
  let (p, s) ← takeDigits 4 s 0
  let s ← expect '-' s
  let (d, s) ← takeDigits 4 s 0
  let s ← expect '-' s
  let (v, s) ← takeDigits 2 s 0
  let name := match s with
    | ' ' :: r => some (firstLine r)
    | _ => none
  pure (c, p, d, v, name)

/-- does ` (version DD)` start here? -/
def suffixAt (s : Str) : Option Nat := do
  let s ← expect ' ' s
  let s ← expect '(' s
  let s ← expect 'v' s
  let s ← expect 'e' s
  let s ← expect 'r' s
  let s ← expect 's' s
  let s ← expect 'i' s
  let s ← expect 'o' s
  let s ← expect 'n' s
  let s ← expect ' ' s
  let (v, s) ← takeDigits 2 s 0
  let _ ← expect ')' s
  pure v

/-- pattern 2: `(.*) \(version (\d{2})\)` — greedy `.*` within the first line: the LAST position that works -/
def match2Aux : Str → Str → Option (Str × Nat) → Option (Str × Nat)
  | [], pre, best => (match suffixAt [] with | some v => some (pre.reverse, v) | none => best)
  | c :: s, pre, best =>
    let best := match suffixAt (c :: s) with | some v => some (pre.reverse, v) | none => best
    if c == '\n' then best else match2Aux s (c :: pre) best

def match2 (s : Str) : Option (Str × Nat) := match2Aux s [] none

/-- `create_from_str` -/
def fromStr (s : Str) : Except Err Id :=
  match match1 s with
  | some (c, p, d, v, n) => .ok (mk (some c) (some p) (some d) v n)
  | none => match match2 s with
    | some (n, v) => .ok (mk none none none v (some n))
    | none => .error .formatCfgId

end Bec2Verif.ConfigId
