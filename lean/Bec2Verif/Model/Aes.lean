import Bec2Verif.Model.Bytes
import Bec2Verif.Gen.AesTables
/-!
Model of `pyaes.aes.AES` (appnotes/register_crypto_plugin/pyaes/aes.py, class AES):
table-driven rounds on packed 32-bit words and the key-schedule loop with its
`KC`-dependent branches.

Abstraction (argued once, exercised by the correspondence on keys with the top
bit of every word set): Python unpacks key words *signed* (`'>i'`) and lets
`^`/`>>` run on possibly negative ints, but every observation of a word is of
the form `(w >> s) & 0xFF`; two's-complement arithmetic shift followed by the
mask gives the same byte as the unsigned value `w mod 2^32`, and `^` commutes
with `mod 2^32`.  The model therefore carries words as naturals `< 2^32`.
-/
namespace Bec2Verif.Aes
open Bec2Verif.Gen

@[inline] def tab (t : Array Nat) (i : Nat) : Nat := t.getD i 0

@[inline] def b0 (w : Nat) : Nat := (w >>> 24) &&& 0xFF
@[inline] def b1 (w : Nat) : Nat := (w >>> 16) &&& 0xFF
@[inline] def b2 (w : Nat) : Nat := (w >>> 8) &&& 0xFF
@[inline] def b3 (w : Nat) : Nat := w &&& 0xFF

/-- `_compact_word` -/
def compact (a b c d : Nat) : Nat := (a <<< 24) ||| (b <<< 16) ||| (c <<< 8) ||| d

def wordsOf : List Nat → List Nat
  | a :: b :: c :: d :: rest => compact a b c d :: wordsOf rest
  | _ => []

def roundsFor (keyLen : Nat) : Option Nat :=
  (number_of_rounds.find? (fun p => p.1 == keyLen)).map (·.2)

/-- `S[(tt>>16)&FF]<<24 ^ S[(tt>>8)&FF]<<16 ^ S[tt&FF]<<8 ^ S[(tt>>24)&FF]` -/
def subRot (tt : Nat) : Nat :=
  (tab S (b1 tt) <<< 24) ^^^ (tab S (b2 tt) <<< 16) ^^^ (tab S (b3 tt) <<< 8) ^^^ tab S (b0 tt)

/-- the 256-bit extra step: `S[tt&FF] ^ S[(tt>>8)&FF]<<8 ^ S[(tt>>16)&FF]<<16 ^ S[(tt>>24)&FF]<<24` -/
def subWord (tt : Nat) : Nat :=
  tab S (b3 tt) ^^^ (tab S (b2 tt) <<< 8) ^^^ (tab S (b1 tt) <<< 16) ^^^ (tab S (b0 tt) <<< 24)

/-- `for i in range(lo, hi): tk[i] ^= tk[i-1]` on the tail, given the previous word -/
def prefixXor (prev : Nat) : List Nat → List Nat
  | [] => []
  | x :: xs => let y := x ^^^ prev; y :: prefixXor y xs

/-- one iteration of the outer `while t < round_key_count` loop, on `tk` -/
def expandStep (kc : Nat) (tk : List Nat) (rp : Nat) : List Nat :=
  let tt := tk.getD (kc - 1) 0
  let t0 := tk.headD 0 ^^^ (subRot tt ^^^ (tab rcon rp <<< 24))
  if kc != 8 then
    t0 :: prefixXor t0 tk.tail
  else
    let first := t0 :: prefixXor t0 ((tk.drop 1).take 3)
    let t3 := first.getD 3 0
    let t4 := tk.getD 4 0 ^^^ subWord t3
    first ++ (t4 :: prefixXor t4 (tk.drop 5))

/-- flat encryption key schedule `W` (`_Ke[t/4][t%4] = W[t]`) -/
def expandLoop (kc rkc : Nat) : Nat → List Nat → Nat → List Nat → List Nat
  | 0, _, _, acc => acc
  | fuel+1, tk, rp, acc =>
    if acc.length < rkc then
      let tk' := expandStep kc tk rp
      expandLoop kc rkc fuel tk' (rp + 1) (acc ++ tk')
    else acc

def expandKey (key : List Nat) (rounds : Nat) : List Nat :=
  let kc := key.length / 4
  let rkc := (rounds + 1) * 4
  let tk := wordsOf key
  (expandLoop kc rkc rkc tk 0 tk).take rkc

def invMixWord (tt : Nat) : Nat :=
  tab U1 (b0 tt) ^^^ tab U2 (b1 tt) ^^^ tab U3 (b2 tt) ^^^ tab U4 (b3 tt)

/-- decryption round keys: `_Kd[rounds - t/4][t%4] = W[t]`, middle rounds through U1..U4 -/
def decKeys (w : List Nat) (rounds : Nat) : List Nat :=
  (List.range (rounds + 1)).flatMap fun r =>
    let ws := (w.drop ((rounds - r) * 4)).take 4
    if 1 ≤ r ∧ r < rounds then ws.map invMixWord else ws

structure Keys where
  rounds : Nat
  ke : Array Nat
  kd : Array Nat

/-- `AES.__init__`: `ValueError('Invalid key size')` unless 16/24/32 bytes -/
def mkKeys (key : Bytes) : Except Err Keys :=
  match roundsFor key.length with
  | none => .error .valueError
  | some rounds =>
    let w := expandKey (key.map UInt8.toNat) rounds
    .ok { rounds := rounds, ke := w.toArray, kd := (decKeys w rounds).toArray }

@[inline] def rk (k : Array Nat) (r i : Nat) : Nat := k.getD (r * 4 + i) 0

def encRound (ke : Array Nat) (r : Nat) (t : Array Nat) : Array Nat :=
  let g (i : Nat) := t.getD (i % 4) 0
  let f (i : Nat) : Nat :=
    tab T1 (b0 (g i)) ^^^ tab T2 (b1 (g (i + 1))) ^^^ tab T3 (b2 (g (i + 2))) ^^^ tab T4 (b3 (g (i + 3))) ^^^ rk ke r i
  #[f 0, f 1, f 2, f 3]

def decRound (kd : Array Nat) (r : Nat) (t : Array Nat) : Array Nat :=
  let g (i : Nat) := t.getD (i % 4) 0
  let f (i : Nat) : Nat :=
    tab T5 (b0 (g i)) ^^^ tab T6 (b1 (g (i + 3))) ^^^ tab T7 (b2 (g (i + 2))) ^^^ tab T8 (b3 (g (i + 1))) ^^^ rk kd r i
  #[f 0, f 1, f 2, f 3]

def roundsLoop (f : Nat → Array Nat → Array Nat) : Nat → Nat → Array Nat → Array Nat
  | 0, _, t => t
  | n+1, r, t => roundsLoop f n (r + 1) (f r t)

def encryptBlock (k : Keys) (pt : List Nat) : List Nat :=
  let ws := wordsOf pt
  let t0 : Array Nat := #[ws.getD 0 0 ^^^ rk k.ke 0 0, ws.getD 1 0 ^^^ rk k.ke 0 1,
                          ws.getD 2 0 ^^^ rk k.ke 0 2, ws.getD 3 0 ^^^ rk k.ke 0 3]
  let t := roundsLoop (encRound k.ke) (k.rounds - 1) 1 t0
  let g (i : Nat) := t.getD (i % 4) 0
  (List.range 4).flatMap fun i =>
    let tt := rk k.ke k.rounds i
    [ (tab S (b0 (g i)) ^^^ (tt >>> 24)) &&& 0xFF,
      (tab S (b1 (g (i + 1))) ^^^ (tt >>> 16)) &&& 0xFF,
      (tab S (b2 (g (i + 2))) ^^^ (tt >>> 8)) &&& 0xFF,
      (tab S (b3 (g (i + 3))) ^^^ tt) &&& 0xFF ]

def decryptBlock (k : Keys) (ct : List Nat) : List Nat :=
  let ws := wordsOf ct
  let t0 : Array Nat := #[ws.getD 0 0 ^^^ rk k.kd 0 0, ws.getD 1 0 ^^^ rk k.kd 0 1,
                          ws.getD 2 0 ^^^ rk k.kd 0 2, ws.getD 3 0 ^^^ rk k.kd 0 3]
  let t := roundsLoop (decRound k.kd) (k.rounds - 1) 1 t0
  let g (i : Nat) := t.getD (i % 4) 0
  (List.range 4).flatMap fun i =>
    let tt := rk k.kd k.rounds i
    [ (tab Si (b0 (g i)) ^^^ (tt >>> 24)) &&& 0xFF,
      (tab Si (b1 (g (i + 3))) ^^^ (tt >>> 16)) &&& 0xFF,
      (tab Si (b2 (g (i + 2))) ^^^ (tt >>> 8)) &&& 0xFF,
      (tab Si (b3 (g (i + 1))) ^^^ tt) &&& 0xFF ]

/-- `AES.encrypt`: `ValueError('wrong block length')` unless 16 bytes -/
def encrypt (k : Keys) (blk : Bytes) : Except Err Bytes :=
  if blk.length != 16 then .error .valueError
  else .ok ((encryptBlock k (blk.map UInt8.toNat)).map UInt8.ofNat)

def decrypt (k : Keys) (blk : Bytes) : Except Err Bytes :=
  if blk.length != 16 then .error .valueError
  else .ok ((decryptBlock k (blk.map UInt8.toNat)).map UInt8.ofNat)

end Bec2Verif.Aes
