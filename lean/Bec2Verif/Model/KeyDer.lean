import Bec2Verif.Model.PointCodec
/-!
Model of the private-key encodings of the bundled python-ecdsa for named curves:
`SigningKey.to_der(format = "ssleay" | "pkcs8")` and `SigningKey.from_der` (`keys.py:977-1130, 1221-1270`) with
`Curve.from_der` for a named curve (`curves.py`).  Explicit curve parameters and EdDSA keys leave the model
(`notModelled`); the public key embedded in the encoding is opaque data (the decoder ignores it).
-/
namespace Bec2Verif.KeyDer
open Bec2Verif Der PointCodec

inductive Fmt where | ssleay | pkcs8
  deriving DecidableEq, Repr

def oidEcDH : List Nat := [1, 3, 132, 1, 12]
def oidEcMQV : List Nat := [1, 3, 132, 1, 13]
def oidEd25519 : List Nat := [1, 3, 101, 112]
def oidEd448 : List Nat := [1, 3, 101, 113]

/-- RFC 5915 `ECPrivateKey`; the `[0] parameters` are present in the ssleay format only -/
def ecPrivateKey (withParams : Bool) (curveOid : List Nat) (priv pub : Bytes) : Bytes :=
  encodeSequence ([encodeInteger 1, encodeOctetString priv] ++
    (if withParams then [encodeConstructed 0 (encOid curveOid)] else []) ++
    [encodeConstructed 1 (encodeBitstring0 pub)])

/-- `SigningKey.to_der(format, point_encoding)` for a named curve: `priv` = `to_string()`, `pub` = encoded public point -/
def privToDer (fmt : Fmt) (curveOid : List Nat) (priv pub : Bytes) : Bytes :=
  match fmt with
  | .ssleay => ecPrivateKey true curveOid priv pub
  | .pkcs8 =>
    encodeSequence [encodeInteger 1, encodeSequence [encOid oidEcPublicKey, encOid curveOid],
      encodeOctetString (ecPrivateKey false curveOid priv pub)]

/-- `Curve.from_der(data)` with all encodings allowed: a named curve; explicit parameters are not modelled -/
def curveFromDer (s : Bytes) : Except Err Gen.CurveRec :=
  if isSequence s then .error .notModelled else
  removeObject s >>= fun (oid, empty) =>
  if !empty.isEmpty then .error .unexpectedDER else
  match findCurve oid with
  | some r => .ok r
  | none => .error .unknownCurve

/-- the PKCS #8 wrapper: algorithm identifier, then the OCTET STRING holding the ECPrivateKey -/
def pkcs8Inner (version : Nat) (s2 : Bytes) : Except Err (Option Gen.CurveRec × Nat × Bytes) :=
  if version != 0 && version != 1 then .error .unexpectedDER else
  removeSequence s2 >>= fun (sequence, s3) =>
  removeObject sequence >>= fun (algOid, algId) =>
  if algOid == oidEd25519 || algOid == oidEd448 then .error .notModelled else
  if !(algOid == oidEcPublicKey || algOid == oidEcDH || algOid == oidEcMQV) then .error .unexpectedDER else
  curveFromDer algId >>= fun curve =>
  removeOctetString s3 >>= fun (s4, _) =>
  removeSequence s4 >>= fun (s5, empty) =>
  if !empty.isEmpty then .error .unexpectedDER else
  removeInteger s5 >>= fun (version', s6) => .ok (some curve, version', s6)

/-- `SigningKey.from_der(string)`: the curve and the secret exponent -/
def privFromDer (s : Bytes) : Except Err (Gen.CurveRec × Nat) :=
  removeSequence s >>= fun (s1, empty) =>
  if !empty.isEmpty then .error .unexpectedDER else
  removeInteger s1 >>= fun (version, s2) =>
  (if isSequence s2 then pkcs8Inner version s2 else .ok (none, version, s2)) >>= fun (curve?, version, s3) =>
  if version != 1 then .error .unexpectedDER else
  removeOctetString s3 >>= fun (privStr, s4) =>
  (match curve? with
   | some c => .ok c
   | none =>
     removeConstructed s4 >>= fun (tag, curveOidStr, _) =>
     if tag != 0 then .error .unexpectedDER else curveFromDer curveOidStr) >>= fun curve =>
  let padded := zeros (curve.baselen - privStr.length) ++ privStr
  if padded.length != curve.baselen then .error .malformedPoint else
  let secexp := fromBE padded
  if secexp < 1 || (secexp : Int) ≥ curve.n then .error .malformedPoint else .ok (curve, secexp)

end Bec2Verif.KeyDer
