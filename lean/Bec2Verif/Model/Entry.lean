import Bec2Verif.Model.Text
import Bec2Verif.Model.Bec2
import Bec2Verif.Model.Bf2
/-!
The parsing entry points as a caller sees them (C14): text envelope + binary reader.
The driver's `bf3.readtext`, `bec2.readtext`, `bf2.import`, `cfgid.parse` and `pfid2` ops evaluate exactly these
functions, so the C14 theorems are about what the correspondence check runs.
-/
namespace Bec2Verif.Entry
open Bec2Verif

/-- `Bf3File.read_file(stream, check_cmac, session_key)` -/
def readBf3 (C : Crypto) (chk : Bool) (key : Bytes) (text : Text.Str) :
    Except Err (List (Text.Str × Text.Str) × List Bf3.Comp) :=
  Text.parseText text >>= fun r =>
  Bf3.readBinary C chk key r.2 >>= fun comps => .ok (r.1, comps)

/-- `Bec2File.read_file(stream, ext_encryptors, check_cmac)` -/
def readBec2 (env : Bec2.Env) (ext : List Bec2.Encryptor) (chk : Bool) (text : Text.Str) (ρ : Bytes := []) :
    Except Err (List (Text.Str × Text.Str) × Bec2.File) :=
  Text.parseText text >>= fun r =>
  Bec2.readBinary env ext chk r.2 ρ >>= fun f => .ok (r.1, f)

/-- `Bf3File.bf2_import(stream, enforce_bf3_compatibility)` -/
def importBf2 (text : Text.Str) (enforce : Bool) := Bf2.bf2Import text enforce

/-- `ConfigId.create_from_str` -/
def parseConfigId (s : Text.Str) := ConfigId.fromStr s

/-- `pfid2_filter_to_str` -/
def formatFilter (f : Bytes) := Bf2.pfid2FilterToStr f

end Bec2Verif.Entry
