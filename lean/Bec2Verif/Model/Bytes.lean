/-
Byte strings and Python-flavoured helpers shared by all models.
No imports: everything here must stay compilable into the driver executable.
-/
namespace Bec2Verif

abbrev Bytes := List UInt8

/-- The Python exception *classes* that can leave a modelled function.
Messages are not modelled; class identity is (C14/C19 are about it). -/
inductive Err where
  | valueError | formatError | formatBf3 | formatBec2 | formatCfgId
  | missingPrjName | missingDevName
  | unsupportedInstr | unsupportedTagType | unsupportedLegacy
  | overflowError | indexError | keyError | typeError | attributeError
  | assertionError | notImplemented | bareException | unicodeError
  | unexpectedDER | malformedPoint | malformedSignature | unknownCurve | badSignature
  | invalidCurve | invalidSharedSecret | noKey | rsZero | badDigest
  | notModelled   -- not a Python exception: the input leaves the modelled part of the code (explicit curve parameters, EdDSA)
  | outOfFuel     -- not a Python exception: a fuel-bounded model loop ran out of fuel (proved unreachable, C14)
  deriving DecidableEq, Repr, Inhabited

def Err.name : Err → String
  | .valueError => "ValueError" | .formatError => "FormatError"
  | .formatBf3 => "Bf3FileFormatError" | .formatBec2 => "Bec2FileFormatError"
  | .formatCfgId => "ConfigIdFormatError"
  | .missingPrjName => "MissingProjectSettingsNameError"
  | .missingDevName => "MissingDeviceSettingsNameError"
  | .unsupportedInstr => "UnsupportedBf2InstrError"
  | .unsupportedTagType => "UnsupportedTagTypeError"
  | .unsupportedLegacy => "UnsupportedLegacyFirmwareError"
  | .overflowError => "OverflowError" | .indexError => "IndexError"
  | .keyError => "KeyError" | .typeError => "TypeError" | .attributeError => "AttributeError"
  | .assertionError => "AssertionError" | .notImplemented => "NotImplementedError"
  | .bareException => "Exception" | .unicodeError => "UnicodeDecodeError"
  | .unexpectedDER => "UnexpectedDER" | .malformedPoint => "MalformedPointError"
  | .malformedSignature => "MalformedSignature" | .unknownCurve => "UnknownCurveError"
  | .badSignature => "BadSignatureError" | .invalidCurve => "InvalidCurveError"
  | .invalidSharedSecret => "InvalidSharedSecretError" | .noKey => "NoKeyError"
  | .rsZero => "RSZeroError" | .badDigest => "BadDigestError"
  | .notModelled => "NotModelled(model)"
  | .outOfFuel => "OutOfFuel(model)"

/-- big-endian, fixed width (`int.to_bytes(k,"big")` without the overflow check) -/
def toBE : Nat → Nat → Bytes
  | 0, _ => []
  | k+1, n => toBE k (n / 256) ++ [UInt8.ofNat (n % 256)]

/-- `int.to_bytes(k,"big")`: `OverflowError` when the value does not fit -/
def toBytesBE (k n : Nat) : Except Err Bytes :=
  if n < 256 ^ k then .ok (toBE k n) else .error .overflowError

/-- `int.from_bytes(bs,"big")` -/
def fromBE (bs : Bytes) : Nat := bs.foldl (fun acc b => acc * 256 + b.toNat) 0

def zeros (n : Nat) : Bytes := List.replicate n 0

/-- `crypto.pad` / the adapter's zero padding to a multiple of 16 -/
def zeroPad (d : Bytes) : Bytes := d ++ zeros ((16 - d.length % 16) % 16)

def xorBytes (a b : Bytes) : Bytes := List.zipWith (· ^^^ ·) a b

end Bec2Verif
