import Bec2Verif.Model.Aes
/-!
* `BlockCipher` — an abstract 16-byte block cipher (container theorems hold for every one).
* CBC over a block cipher (`pyaes.AESModeOfOperationCBC`).
* The registered AES-128 adapter (`appnotes/register_crypto_plugin/__init__.py:17-37`):
  a fresh CBC mode object and a `padding="none"` block feeder per call.
* `Crypto` — what `bec2format` sees of the registered plug-in (`create_AES128(key, iv).encrypt/decrypt/mac`).
-/
namespace Bec2Verif

structure BlockCipher where
  K : Type
  /-- key schedule; `ValueError('Invalid key size')` for a bad key -/
  sched : Bytes → Except Err K
  enc : K → Bytes → Bytes
  dec : K → Bytes → Bytes

def chunksAux (n : Nat) : Nat → Bytes → List Bytes
  | 0, _ => []
  | f+1, bs => if bs.isEmpty then [] else bs.take n :: chunksAux n f (bs.drop n)

/-- consecutive `n`-byte pieces (the last one may be shorter) -/
def chunks (n : Nat) (bs : Bytes) : List Bytes := chunksAux n bs.length bs

/-- CBC encryption of whole blocks; `prev` is `_last_cipherblock` -/
def cbcEncBlocks (B : BlockCipher) (k : B.K) : Bytes → List Bytes → List Bytes
  | _, [] => []
  | prev, b :: bs => let c := B.enc k (xorBytes b prev); c :: cbcEncBlocks B k c bs

def cbcDecBlocks (B : BlockCipher) (k : B.K) : Bytes → List Bytes → List Bytes
  | _, [] => []
  | prev, c :: cs => xorBytes (B.dec k c) prev :: cbcDecBlocks B k c cs

/-- what `bec2format` sees of the registered crypto plug-in: `key → iv → data → result` -/
structure Crypto where
  encrypt : Bytes → Option Bytes → Bytes → Except Err Bytes
  decrypt : Bytes → Option Bytes → Bytes → Except Err Bytes
  mac : Bytes → Option Bytes → Bytes → Except Err Bytes

namespace Adapter

/-- `AESModeOfOperationCBC(key, iv)`: the IV is checked before the key -/
def mkMode (B : BlockCipher) (key : Bytes) (iv : Option Bytes) : Except Err (B.K × Bytes) := do
  let ivb ← match iv with
    | none => pure (zeros 16)
    | some v => if v.length != 16 then throw Err.valueError else pure v
  let k ← B.sched key
  pure (k, ivb)

/-- `Encrypter(mode, padding="none")` fed once with all data, then finalised: every
16-byte block but the last goes through `feed`, the final buffer must be exactly 16 bytes
(`Exception('invalid data length for final block')` for empty or ragged input). -/
def feedAll (data : Bytes) : Except Err (List Bytes) :=
  if data.length = 0 ∨ data.length % 16 ≠ 0 then .error .bareException else .ok (chunks 16 data)

/-- the adapter rejects empty data itself (`ValueError`) before the mode object is built -/
def encrypt (B : BlockCipher) (key : Bytes) (iv : Option Bytes) (data : Bytes) : Except Err Bytes :=
  if data.length = 0 then .error .valueError else do
  let (k, ivb) ← mkMode B key iv
  let blocks ← feedAll (zeroPad data)
  pure (cbcEncBlocks B k ivb blocks).flatten

/-- after the repair of D2 the adapter returns the padded plaintext unchanged -/
def decrypt (B : BlockCipher) (key : Bytes) (iv : Option Bytes) (data : Bytes) : Except Err Bytes :=
  if data.length = 0 ∨ data.length % 16 ≠ 0 then .error .valueError else do
  let (k, ivb) ← mkMode B key iv
  let blocks ← feedAll data
  pure (cbcDecBlocks B k ivb blocks).flatten

/-- `self.encrypt(data)[-16:]` -/
def mac (B : BlockCipher) (key : Bytes) (iv : Option Bytes) (data : Bytes) : Except Err Bytes := do
  let c ← encrypt B key iv data
  pure (c.drop (c.length - 16))

def crypto (B : BlockCipher) : Crypto :=
  { encrypt := encrypt B, decrypt := decrypt B, mac := mac B }

end Adapter

/-- the bundled AES as a block cipher -/
def aesCipher : BlockCipher where
  K := Aes.Keys
  sched := Aes.mkKeys
  enc k b := (Aes.encryptBlock k (b.map UInt8.toNat)).map UInt8.ofNat
  dec k b := (Aes.decryptBlock k (b.map UInt8.toNat)).map UInt8.ofNat

def aesCrypto : Crypto := Adapter.crypto aesCipher

end Bec2Verif
