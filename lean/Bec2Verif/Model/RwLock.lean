/-!
Model of the bundled reader-writer lock (`appnotes/register_crypto_plugin/ecdsa/_rwlock.py`): the second
readers-writers solution with two "light switches" and three mutexes.

Granularity: one step = one source line of `_rwlock.py` executed by one thread (what a line tracer sees).
A thread's program counter names the line it will execute next.  `threading.Lock` is not owner-checked:
a mutex is a Boolean, `acquire` is enabled only when it is free.

Reader (`reader_acquire`; critical section; `reader_release`):
```
 0 readers_queue.acquire()        9 readers_queue.release()
 1 no_readers.acquire()          10 -- critical section --
 2 read_switch.acquire(...)      11 read_switch.release(...)          (call line)
 3   mutex.acquire()             12   mutex.acquire()
 4   counter += 1                13   counter -= 1
 5   if counter == 1:            14   if counter == 0:
 6       no_writers.acquire()    15       no_writers.release()
 7   mutex.release()             16   mutex.release()
 8 no_readers.release()          17 done
```
Writer (`writer_acquire`; critical section; `writer_release`):
```
 0 write_switch.acquire(...)      8 no_writers.release()
 1   mutex.acquire()              9 write_switch.release(...)         (call line)
 2   counter += 1                10   mutex.acquire()
 3   if counter == 1:            11   counter -= 1
 4       no_readers.acquire()    12   if counter == 0:
 5   mutex.release()             13       no_readers.release()
 6 no_writers.acquire()          14   mutex.release()
 7 -- critical section --        15 done
```
-/
namespace Bec2Verif.RwLock

inductive Role where | reader | writer
  deriving DecidableEq, Repr, Hashable

structure Thread where
  role : Role
  pc : Nat
  deriving DecidableEq, Repr, Hashable

structure State where
  threads : List Thread
  rq : Bool        -- readers_queue
  nr : Bool        -- no_readers
  nw : Bool        -- no_writers
  rm : Bool        -- read_switch mutex
  wm : Bool        -- write_switch mutex
  rc : Nat         -- read_switch counter
  wc : Nat         -- write_switch counter
  deriving DecidableEq, Repr, Hashable

def init (ts : List Role) : State :=
  { threads := ts.map (fun r => ⟨r, 0⟩), rq := false, nr := false, nw := false, rm := false, wm := false, rc := 0, wc := 0 }

def readerDone : Nat := 17
def writerDone : Nat := 15
def readerCS : Nat := 10
def writerCS : Nat := 7

/-- effect of the line at `pc` of a reader on the shared state; `none` = blocked (or finished) -/
def readerStep (s : State) (pc : Nat) : Option (State × Nat) :=
  match pc with
  | 0 => if s.rq then none else some ({ s with rq := true }, 1)
  | 1 => if s.nr then none else some ({ s with nr := true }, 2)
  | 2 => some (s, 3)
  | 3 => if s.rm then none else some ({ s with rm := true }, 4)
  | 4 => some ({ s with rc := s.rc + 1 }, 5)
  | 5 => some (s, if s.rc == 1 then 6 else 7)
  | 6 => if s.nw then none else some ({ s with nw := true }, 7)
  | 7 => some ({ s with rm := false }, 8)
  | 8 => some ({ s with nr := false }, 9)
  | 9 => some ({ s with rq := false }, 10)
  | 10 => some (s, 11)
  | 11 => some (s, 12)
  | 12 => if s.rm then none else some ({ s with rm := true }, 13)
  | 13 => some ({ s with rc := s.rc - 1 }, 14)
  | 14 => some (s, if s.rc == 0 then 15 else 16)
  | 15 => some ({ s with nw := false }, 16)
  | 16 => some ({ s with rm := false }, 17)
  | _ => none

def writerStep (s : State) (pc : Nat) : Option (State × Nat) :=
  match pc with
  | 0 => some (s, 1)
  | 1 => if s.wm then none else some ({ s with wm := true }, 2)
  | 2 => some ({ s with wc := s.wc + 1 }, 3)
  | 3 => some (s, if s.wc == 1 then 4 else 5)
  | 4 => if s.nr then none else some ({ s with nr := true }, 5)
  | 5 => some ({ s with wm := false }, 6)
  | 6 => if s.nw then none else some ({ s with nw := true }, 7)
  | 7 => some (s, 8)
  | 8 => some ({ s with nw := false }, 9)
  | 9 => some (s, 10)
  | 10 => if s.wm then none else some ({ s with wm := true }, 11)
  | 11 => some ({ s with wc := s.wc - 1 }, 12)
  | 12 => some (s, if s.wc == 0 then 13 else 14)
  | 13 => some ({ s with nr := false }, 14)
  | 14 => some ({ s with wm := false }, 15)
  | _ => none

/-- thread `i` executes its next line -/
def step (s : State) (i : Nat) : Option State :=
  match s.threads[i]? with
  | none => none
  | some t =>
    match (match t.role with | .reader => readerStep s t.pc | .writer => writerStep s t.pc) with
    | none => none
    | some (s', pc') => some { s' with threads := s.threads.set i { t with pc := pc' } }

def finished (t : Thread) : Bool :=
  match t.role with | .reader => t.pc == readerDone | .writer => t.pc == writerDone

def inCS (t : Thread) : Bool :=
  match t.role with | .reader => t.pc == readerCS | .writer => t.pc == writerCS

/-- all successors, with the index of the thread that moved -/
def successors (s : State) : List (Nat × State) :=
  (List.range s.threads.length).filterMap (fun i => (step s i).map (fun s' => (i, s')))

/-- reachability -/
inductive Reachable (ts : List Role) : State → Prop
  | init : Reachable ts (init ts)
  | step {s s' : State} (i : Nat) : Reachable ts s → step s i = some s' → Reachable ts s'

end Bec2Verif.RwLock
