import Bec2Verif.Model.Crypto
/-!
Model of the pyaes modes of operation (`pyaes/aes.py`: ECB, CBC, CFB, OFB, CTR, `Counter`)
as state machines, and of the block feeders (`pyaes/blockfeeder.py`), over an abstract
block cipher.
-/
namespace Bec2Verif.Modes
open Bec2Verif

inductive Kind where
  | ecb | cbc | cfb (seg : Nat) | ofb | ctr
  deriving DecidableEq, Repr

/-- a mode object: `reg` = `_last_cipherblock` / `_shift_register` / `_last_precipherblock`,
`rem` = `_remaining_block` / `_remaining_counter`, `counter` = `Counter._counter` -/
structure St (B : BlockCipher) where
  kind : Kind
  key : B.K
  reg : Bytes
  rem : Bytes
  counter : Bytes
  /-- CFB constructed with `iv = None`: the shift register is a Python *list*, and the first
  `_concat_list(list, list)` = `list + bytes(...)` raises `TypeError` (behaviour of the code as it is) -/
  listReg : Bool := false

/-- `Counter(initial_value)._counter`: the low 128 bits, big-endian -/
def counterInit (v : Nat) : Bytes := toBE 16 (v % 2 ^ 128)

/-- `Counter.increment`: +1 with carry, all-zero after overflow -/
def counterInc (c : Bytes) : Bytes := toBE 16 ((fromBE c + 1) % 2 ^ 128)

/-- constructors: `iv` `none` means the Python `None` (all-zero) -/
def new (B : BlockCipher) (kind : Kind) (key : Bytes) (iv : Option Bytes) (ctr : Nat) : Except Err (St B) :=
  let ivCheck : Except Err Bytes := match iv with
    | none => .ok (zeros 16)
    | some v => if v.length != 16 then .error .valueError else .ok v
  match kind with
  | .ecb => do let k ← B.sched key; pure { kind := kind, key := k, reg := [], rem := [], counter := [] }
  | .ctr => do let k ← B.sched key; pure { kind := kind, key := k, reg := [], rem := [], counter := counterInit ctr }
  | .cfb seg => do
    let r ← ivCheck
    let k ← B.sched key
    pure { kind := .cfb (if seg = 0 then 1 else seg), key := k, reg := r, rem := [], counter := [],
           listReg := iv.isNone }
  | _ => do
    let r ← ivCheck
    let k ← B.sched key
    pure { kind := kind, key := k, reg := r, rem := [], counter := [] }

def cfbLoop (B : BlockCipher) (k : B.K) (seg : Nat) (dec : Bool) : Nat → Bytes → Bytes → Bytes → Bytes × Bytes
  | 0, _, reg, out => (reg, out)
  | fuel+1, data, reg, out =>
    if data.isEmpty then (reg, out) else
    let s := data.take seg
    let x := (B.enc k reg).take s.length
    let o := xorBytes s x
    let cipherSeg := if dec then s else o
    cfbLoop B k seg dec fuel (data.drop seg) (reg.drop cipherSeg.length ++ cipherSeg) (out ++ o)

def ofbLoop (B : BlockCipher) (k : B.K) : Bytes → Bytes → Bytes → Bytes → Bytes × Bytes × Bytes
  | [], reg, rem, out => (reg, rem, out)
  | p :: ps, reg, rem, out =>
    let (reg, rem) := if rem.isEmpty then ([], B.enc k reg) else (reg, rem)
    match rem with
    | [] => (reg, rem, out)       -- unreachable: the cipher returns 16 bytes
    | b :: rem' => ofbLoop B k ps (reg ++ [b]) rem' (out ++ [p ^^^ b])

def ctrFill (B : BlockCipher) (k : B.K) (need : Nat) : Nat → Bytes → Bytes → Bytes × Bytes
  | 0, rem, c => (rem, c)
  | fuel+1, rem, c => if rem.length < need then ctrFill B k need fuel (rem ++ B.enc k c) (counterInc c) else (rem, c)

/-- `mode.encrypt(data)` / `mode.decrypt(data)` -/
def step (B : BlockCipher) (s : St B) (dec : Bool) (data : Bytes) : Except Err (St B × Bytes) :=
  match s.kind with
  | .ecb =>
    if data.length != 16 then .error .valueError
    else .ok (s, if dec then B.dec s.key data else B.enc s.key data)
  | .cbc =>
    if data.length != 16 then .error .valueError
    else if dec then .ok ({ s with reg := data }, xorBytes (B.dec s.key data) s.reg)
    else let c := B.enc s.key (xorBytes data s.reg); .ok ({ s with reg := c }, c)
  | .cfb seg =>
    if data.length % seg != 0 then .error .valueError
    else if s.listReg && !data.isEmpty then .error .typeError
    else let (reg, out) := cfbLoop B s.key seg dec (data.length + 1) data s.reg []
         .ok ({ s with reg := reg }, out)
  | .ofb =>
    let (reg, rem, out) := ofbLoop B s.key data s.reg s.rem []
    .ok ({ s with reg := reg, rem := rem }, out)
  | .ctr =>
    let (rem, c) := ctrFill B s.key data.length (data.length / 16 + 2) s.rem s.counter
    let out := xorBytes data rem
    .ok ({ s with rem := rem.drop out.length, counter := c }, out)

/-! ### block feeders -/

inductive Padding where | default | none
  deriving DecidableEq, Repr

structure Feeder (B : BlockCipher) where
  mode : St B
  dec : Bool
  padding : Padding
  buffer : Option Bytes      -- `None` after finalisation

def canConsume (k : Kind) (size : Nat) : Nat :=
  match k with
  | .ecb | .cbc => if size ≥ 16 then 16 else 0
  | .cfb seg => seg * (size / seg)
  | .ofb | .ctr => size

def pkcs7 (d : Bytes) : Bytes := let pad := 16 - d.length % 16; d ++ List.replicate pad (UInt8.ofNat pad)

/-- `strip_PKCS7_padding` -/
def stripPkcs7 (d : Bytes) : Except Err Bytes :=
  if d.length % 16 != 0 then .error .valueError else
  match d.getLast? with
  | none => .error .indexError
  | some p => if p.toNat > 16 then .error .valueError
              else if p.toNat = 0 then .ok [] else .ok (d.take (d.length - p.toNat))

/-- `mode._final_encrypt(data, padding)` / `_final_decrypt` -/
def final (B : BlockCipher) (m : St B) (dec : Bool) (pad : Padding) (data : Bytes) : Except Err (St B × Bytes) :=
  match m.kind with
  | .ecb | .cbc =>
    if dec then
      match pad with
      | .default => do let (m', p) ← step B m true data; let s ← stripPkcs7 p; pure (m', s)
      | .none => if data.length != 16 then .error .bareException else step B m true data
    else
      match pad with
      | .default =>
        let d := pkcs7 data
        if d.length = 32 then do
          let (m1, c1) ← step B m false (d.take 16)
          let (m2, c2) ← step B m1 false (d.drop 16)
          pure (m2, c1 ++ c2)
        else step B m false d
      | .none => if data.length != 16 then .error .bareException else step B m false data
  | .cfb seg =>
    match pad with
    | .none => .error .bareException
    | .default =>
      let padded := data ++ zeros (seg - data.length % seg)
      do let (m', o) ← step B m dec padded; pure (m', o.take data.length)
  | .ofb | .ctr => step B m dec data

def feedLoop (B : BlockCipher) (dec : Bool) : Nat → St B → Bytes → Bytes → Except Err (St B × Bytes × Bytes)
  | 0, m, buf, out => .ok (m, buf, out)
  | fuel+1, m, buf, out =>
    if buf.length > 16 then
      let can := canConsume m.kind (buf.length - 16)
      if can = 0 then .ok (m, buf, out) else do
        let (m', o) ← step B m dec (buf.take can)
        feedLoop B dec fuel m' (buf.drop can) (out ++ o)
    else .ok (m, buf, out)

/-- `feeder.feed(data)`; `data = none` is the finalising `feed()` -/
def feed (B : BlockCipher) (f : Feeder B) (data : Option Bytes) : Except Err (Feeder B × Bytes) :=
  match f.buffer with
  | none => .error .valueError
  | some buf =>
    match data with
    | none => do
      let (m', out) ← final B f.mode f.dec f.padding buf
      pure ({ f with mode := m', buffer := none }, out)
    | some d => do
      let (m', buf', out) ← feedLoop B f.dec (buf.length + d.length + 1) f.mode (buf ++ d) []
      pure ({ f with mode := m', buffer := some buf' }, out)

/-- what `in_stream.read(block_size)` returns call after call on a stream holding `d` (complete reads, `block_size > 0`),
up to the first empty result -/
def readChunks (n : Nat) : Nat → Bytes → List Bytes
  | 0, _ => []
  | fuel+1, d => if d.isEmpty then [] else d.take n :: readChunks n fuel (d.drop n)

/-- `feeder.feed(c)` for the chunks one after another; the first exception ends the run -/
def feedMany (B : BlockCipher) : Feeder B → List Bytes → Except Err (Feeder B × Bytes)
  | f, [] => .ok (f, [])
  | f, c :: cs =>
    match feed B f (some c) with
    | .error e => .error e
    | .ok (f1, o1) =>
      match feedMany B f1 cs with
      | .error e => .error e
      | .ok (f2, o2) => .ok (f2, o1 ++ o2)

/-- `_feed_stream(feeder, in_stream, out_stream, block_size)`: what is written to `out_stream` when the `read` calls return
the chunks `cs` (none of them empty) and then an empty string -/
def feedStreamChunks (B : BlockCipher) (f : Feeder B) (cs : List Bytes) : Except Err Bytes :=
  match feedMany B f cs with
  | .error e => .error e
  | .ok (f1, o1) =>
    match feed B f1 none with
    | .error e => .error e
    | .ok (_, o2) => .ok (o1 ++ o2)

/-- `encrypt_stream` / `decrypt_stream` on a stream that holds `data` and reads completely -/
def feedStream (B : BlockCipher) (f : Feeder B) (blockSize : Nat) (data : Bytes) : Except Err Bytes :=
  feedStreamChunks B f (readChunks blockSize (data.length + 1) data)

end Bec2Verif.Modes
