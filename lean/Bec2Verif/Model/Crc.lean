/-
Model of `bec2format.bec2file.crc8404B` (bec2file.py:29-39).

Python ints are unbounded, so the model is on `Nat`; the code never masks the
running value, and neither does the model.
-/
namespace Bec2Verif.Crc

/-- one iteration of the `for c in data` loop -/
def stepPy (cur c : Nat) : Nat :=
  let b0 := c ^^^ (cur &&& 0xFF)
  let b := b0 ^^^ ((b0 <<< 4) &&& 0xFF)
  (cur >>> 8) ^^^ (b <<< 8) ^^^ (b <<< 3) ^^^ (b >>> 4)

/-- `crc8404B(data, start_value)` -/
def crcPy (data : List Nat) (start : Nat := 0xFFFF) : Nat :=
  data.foldl stepPy start

end Bec2Verif.Crc
