import Bec2Verif.Model.Tlv
/-!
Grammar of the configuration TLV blocks as a decoder, written from the format description:

block  := group*
group  := 02 kh kl                                   -- delete key
        | 01 kh kl item* (FF | end of block)         -- operations on key kh·256+kl
item   := v FF                                       -- delete value v        (v ≠ FF)
        | v len content[len]                         -- set value v           (v ≠ FF, len ≠ FF)
-/
namespace Bec2Verif.Spec.TlvGrammar
open Bec2Verif

inductive Op where
  | delKey (k : Nat)
  | delVal (k v : Nat)
  | set (k v : Nat) (c : Bytes)
  deriving DecidableEq, Repr

/-- decode from group state `cur` (`some k` = inside a `01` group for key `k`); returns the operations
and the state at the end of the bytes -/
def dec : Nat → Option Nat → Bytes → Option (List Op × Option Nat)
  | _, cur, [] => some ([], cur)
  | 0, _, _ :: _ => none
  | f+1, none, t :: kh :: kl :: r =>
    if t = 0x02 then (dec f none r).map fun p => (Op.delKey (kh.toNat * 256 + kl.toNat) :: p.1, p.2)
    else if t = 0x01 then dec f (some (kh.toNat * 256 + kl.toNat)) r
    else none
  | _+1, none, _ => none
  | f+1, some k, v :: r =>
    if v = 0xFF then dec f none r else
    match r with
    | [] => none
    | len :: r' =>
      if len = 0xFF then (dec f (some k) r').map fun p => (Op.delVal k v.toNat :: p.1, p.2)
      else if len.toNat ≤ r'.length then
        (dec f (some k) (r'.drop len.toNat)).map fun p => (Op.set k v.toNat (r'.take len.toNat) :: p.1, p.2)
      else none

/-- one block: fresh state, enough fuel -/
def decodeBlock (b : Bytes) : Option (List Op) := (dec b.length none b).map (·.1)

def decodeBlocks : List Bytes → Option (List Op)
  | [] => some []
  | b :: bs => do let o ← decodeBlock b; let os ← decodeBlocks bs; pure (o ++ os)

/-- the blob: length-prefixed blocks, closed by a zero length -/
def splitBlob : Nat → Bytes → Option (List Bytes × Bytes)
  | _, [] => none
  | 0, _ => none
  | f+1, n :: r =>
    if n = 0 then some ([], r)
    else if n.toNat ≤ r.length then (splitBlob f (r.drop n.toNat)).map fun p => (r.take n.toNat :: p.1, p.2)
    else none

def opOf (e : Tlv.Entry) : Op :=
  match e.value, e.content with
  | none, _ => .delKey e.key
  | some v, none => .delVal e.key v
  | some v, some c => .set e.key v c

end Bec2Verif.Spec.TlvGrammar
