/-!
GF(2^8) with the AES polynomial x^8+x^4+x^3+x+1 (FIPS-197 §4), the S-box as
"multiplicative inverse, then affine map" (§5.1.1).  Written kernel-friendly:
structural recursion, `Nat.beq`/`Nat.ble`, `bif`.
-/
namespace Bec2Verif.Spec.Gf

def xtime (x : Nat) : Nat :=
  let y := x <<< 1
  bif Nat.ble 256 y then y ^^^ 0x11B else y

def gmulAux : Nat → Nat → Nat → Nat → Nat
  | 0, _, _, acc => acc
  | k+1, x, y, acc => gmulAux k (xtime x) (y >>> 1) (bif Nat.beq (y % 2) 1 then acc ^^^ x else acc)

/-- multiplication in GF(2^8) -/
def gmul (x y : Nat) : Nat := gmulAux 8 x y 0

def gpow (x : Nat) : Nat → Nat
  | 0 => 1
  | n+1 => gmul (gpow x n) x

/-- multiplicative inverse (0 ↦ 0): x^254 by square-and-multiply -/
def ginv (x : Nat) : Nat :=
  let x2 := gmul x x
  let x4 := gmul x2 x2
  let x8 := gmul x4 x4
  let x16 := gmul x8 x8
  let x32 := gmul x16 x16
  let x64 := gmul x32 x32
  let x128 := gmul x64 x64
  gmul (gmul (gmul (gmul (gmul (gmul x128 x64) x32) x16) x8) x4) x2

def bit (x i : Nat) : Nat := (x >>> i) % 2

/-- the affine transformation of FIPS-197 (5.2): b'_i = b_i ⊕ b_{i+4} ⊕ b_{i+5} ⊕ b_{i+6} ⊕ b_{i+7} ⊕ c_i, c = 0x63 -/
def affineBit (b i : Nat) : Nat :=
  (bit b i + bit b ((i + 4) % 8) + bit b ((i + 5) % 8) + bit b ((i + 6) % 8) + bit b ((i + 7) % 8) + bit 0x63 i) % 2

def affine (b : Nat) : Nat :=
  affineBit b 0 + 2 * affineBit b 1 + 4 * affineBit b 2 + 8 * affineBit b 3 +
  16 * affineBit b 4 + 32 * affineBit b 5 + 64 * affineBit b 6 + 128 * affineBit b 7

def sbox (x : Nat) : Nat := affine (ginv x)

/-- pack four bytes into a big-endian 32-bit word -/
def word (a b c d : Nat) : Nat := a * 16777216 + b * 65536 + c * 256 + d

end Bec2Verif.Spec.Gf
