import Bec2Verif.Model.Bf3
/-!
Declarative layout of the BF3 container body (directory + payloads), written from the
format description and not from the writer:

```
body      := be4(|directory|) ++ directory ++ payload_0 ++ … ++ payload_{n-1}
directory := (len_i : 1 byte, entry_i)*  ++  00
entry_i   := be4 adr_i  be4 stored_i  be4 declared_i  payloadMAC_i(16)  be1 |tags_i|  tags_i  entryMAC_i(16)
tags      := (tag:1, len:1, value)*
adr_i     := absolute file offset of payload_i = start + 4 + |directory| + Σ_{j<i} stored_j
entryMAC_i = MAC(key, iv = be16(i+1), entry_i without its MAC)      payloadMAC_i = MAC(key, iv = none, payload_i)
```
-/
namespace Bec2Verif.Spec.Layout
open Bec2Verif Bec2Verif.Bf3

/-- the fields of one directory entry together with its payload -/
structure RawEntry where
  adr : Nat
  declared : Nat
  pmac : Bytes
  desc : List (Nat × Bytes)
  emac : Bytes
  payload : Bytes
  deriving DecidableEq, Repr

def tlvBytes : List (Nat × Bytes) → Bytes
  | [] => []
  | (t, v) :: r => toBE 1 t ++ toBE 1 v.length ++ v ++ tlvBytes r

/-- entry without its MAC: the MAC'd span -/
def entryBody (e : RawEntry) : Bytes :=
  toBE 4 e.adr ++ toBE 4 e.payload.length ++ toBE 4 e.declared ++ e.pmac ++
    toBE 1 (tlvBytes e.desc).length ++ tlvBytes e.desc

def entryBytes (e : RawEntry) : Bytes := entryBody e ++ e.emac

def dirEntriesBytes : List RawEntry → Bytes
  | [] => []
  | e :: es => toBE 1 (entryBytes e).length ++ entryBytes e ++ dirEntriesBytes es

def dirBytes (es : List RawEntry) : Bytes := dirEntriesBytes es ++ [0]

def payloads : List RawEntry → Bytes
  | [] => []
  | e :: es => e.payload ++ payloads es

def bodyBytes (es : List RawEntry) : Bytes :=
  toBE 4 (dirBytes es).length ++ dirBytes es ++ payloads es

/-- per-entry well-formedness: `i` = 0-based index, `adr` = absolute offset its payload must have -/
structure EntryWF (C : Crypto) (chk : Bool) (key : Bytes) (i adr : Nat) (e : RawEntry) : Prop where
  adrEq : e.adr = adr
  adrLt : e.adr < 256 ^ 4
  storedLt : e.payload.length < 256 ^ 4
  declLe : e.declared ≤ e.payload.length
  pmacLen : e.pmac.length = Gen.CMAC_SIZE
  emacLen : e.emac.length = Gen.CMAC_SIZE
  tagsLt : ∀ p ∈ e.desc, p.1 < 256 ∧ p.2.length < 256
  tagsNodup : (e.desc.map Prod.fst).Nodup
  descLt : (tlvBytes e.desc).length < 256
  entryLt : (entryBytes e).length < 256
  emacOk : chk = true → C.mac key (some (toBE Gen.CMAC_SIZE (1 + i))) (entryBody e) = .ok e.emac
  pmacOk : chk = true → C.mac key none e.payload = .ok e.pmac

/-- all entries well-formed, payload addresses absolute and contiguous from `adr` -/
def EntriesWF (C : Crypto) (chk : Bool) (key : Bytes) : Nat → Nat → List RawEntry → Prop
  | _, _, [] => True
  | i, adr, e :: es => EntryWF C chk key i adr e ∧ EntriesWF C chk key (i + 1) (adr + e.payload.length) es

/-- `bin`, found at absolute offset `pos`, is a well-formed authentic container body with entries `es` -/
def WellFormed (C : Crypto) (chk : Bool) (key : Bytes) (pos : Nat) (bin : Bytes) (es : List RawEntry) : Prop :=
  bin = bodyBytes es ∧ (dirBytes es).length < 256 ^ 4 ∧
  EntriesWF C chk key 0 (pos + 4 + (dirBytes es).length) es

/-- the component the fields of an entry denote (`Bf3Component(description, payload, declared)`,
decrypted when tagged ENC = SESSIONKEY) -/
def compOf (C : Crypto) (key : Bytes) (e : RawEntry) : Except Err Comp :=
  if e.desc.lookup Gen.BF3TAG_ENC == some sessionKeyEnc then do
    let plain ← C.decrypt key none e.payload
    pure (mkComp e.desc plain (some e.declared) true)
  else pure (mkComp e.desc e.payload (some e.declared) false)

def compsOf (C : Crypto) (key : Bytes) : List RawEntry → Except Err (List Comp)
  | [] => .ok []
  | e :: es => do
    let c ← compOf C key e
    let rest ← compsOf C key es
    pure (c :: rest)

end Bec2Verif.Spec.Layout
