import Bec2Verif.Spec.Gf256
/-!
FIPS-197 as written in the standard, on a state of four columns of four bytes (`s[r,c]` is component `r` of column
`c`; the input block fills the state column by column, §3.4): SubBytes (§5.1.1), ShiftRows (§5.1.2), MixColumns
(§5.1.3), AddRoundKey (§5.1.4), Cipher (Fig. 5), KeyExpansion (Fig. 11), and the straightforward InvCipher of §5.3
(Fig. 12) with InvShiftRows, InvSubBytes (inverse affine map followed by the field inverse), InvMixColumns.
Independent of `pyaes` and of its tables.
-/
namespace Bec2Verif.Spec.Fips
open Bec2Verif.Spec.Gf

abbrev Col := Nat × Nat × Nat × Nat
abbrev State := Col × Col × Col × Col

def mapCol (f : Nat → Nat) : Col → Col
  | (a, b, c, d) => (f a, f b, f c, f d)

def mapState (f : Col → Col) : State → State
  | (c0, c1, c2, c3) => (f c0, f c1, f c2, f c3)

def xorCol : Col → Col → Col
  | (a, b, c, d), (a', b', c', d') => (a ^^^ a', b ^^^ b', c ^^^ c', d ^^^ d')

/-- AddRoundKey -/
def addRoundKey : State → State → State
  | (c0, c1, c2, c3), (k0, k1, k2, k3) => (xorCol c0 k0, xorCol c1 k1, xorCol c2 k2, xorCol c3 k3)

/-- SubBytes -/
def subBytes : State → State := mapState (mapCol sbox)

/-- ShiftRows: row `r` is rotated left by `r` columns -/
def shiftRows : State → State
  | ((a0, a1, a2, a3), (b0, b1, b2, b3), (c0, c1, c2, c3), (d0, d1, d2, d3)) =>
    ((a0, b1, c2, d3), (b0, c1, d2, a3), (c0, d1, a2, b3), (d0, a1, b2, c3))

/-- one column times the matrix (5.6) -/
def mixCol : Col → Col
  | (a, b, c, d) =>
    (gmul a 2 ^^^ gmul b 3 ^^^ c ^^^ d,
     a ^^^ gmul b 2 ^^^ gmul c 3 ^^^ d,
     a ^^^ b ^^^ gmul c 2 ^^^ gmul d 3,
     gmul a 3 ^^^ b ^^^ c ^^^ gmul d 2)

def mixColumns : State → State := mapState mixCol

/-- iterate `f r` for `r = from, from+1, …` (`n` times) -/
def loop (f : Nat → State → State) : Nat → Nat → State → State
  | 0, _, s => s
  | n+1, r, s => loop f n (r + 1) (f r s)

/-- Cipher (Fig. 5) with the round keys `w r` (`r = 0 … Nr`) -/
def cipher (w : Nat → State) (nr : Nat) (inp : State) : State :=
  let s := addRoundKey inp (w 0)
  let s := loop (fun r s => addRoundKey (mixColumns (shiftRows (subBytes s))) (w r)) (nr - 1) 1 s
  addRoundKey (shiftRows (subBytes s)) (w nr)

/-! ### inverse cipher (§5.3) -/

def invShiftRows : State → State
  | ((a0, a1, a2, a3), (b0, b1, b2, b3), (c0, c1, c2, c3), (d0, d1, d2, d3)) =>
    ((a0, d1, c2, b3), (b0, a1, d2, c3), (c0, b1, a2, d3), (d0, c1, b2, a3))

/-- inverse of the affine map (5.1.1): `b_i = b'_{i+2} ⊕ b'_{i+5} ⊕ b'_{i+7} ⊕ d_i`, `d = 0x05` -/
def invAffineBit (b i : Nat) : Nat :=
  (bit b ((i + 2) % 8) + bit b ((i + 5) % 8) + bit b ((i + 7) % 8) + bit 0x05 i) % 2

def invAffine (b : Nat) : Nat :=
  invAffineBit b 0 + 2 * invAffineBit b 1 + 4 * invAffineBit b 2 + 8 * invAffineBit b 3 +
  16 * invAffineBit b 4 + 32 * invAffineBit b 5 + 64 * invAffineBit b 6 + 128 * invAffineBit b 7

def invSbox (x : Nat) : Nat := ginv (invAffine x)

def invSubBytes : State → State := mapState (mapCol invSbox)

/-- one column times the matrix (5.10) -/
def invMixCol : Col → Col
  | (a, b, c, d) =>
    (gmul a 14 ^^^ gmul b 11 ^^^ gmul c 13 ^^^ gmul d 9,
     gmul a 9 ^^^ gmul b 14 ^^^ gmul c 11 ^^^ gmul d 13,
     gmul a 13 ^^^ gmul b 9 ^^^ gmul c 14 ^^^ gmul d 11,
     gmul a 11 ^^^ gmul b 13 ^^^ gmul c 9 ^^^ gmul d 14)

def invMixColumns : State → State := mapState invMixCol

/-- InvCipher (Fig. 12): round keys are used in reverse order -/
def invCipher (w : Nat → State) (nr : Nat) (inp : State) : State :=
  let s := addRoundKey inp (w nr)
  let s := loop (fun r s => invMixColumns (addRoundKey (invSubBytes (invShiftRows s)) (w (nr - r)))) (nr - 1) 1 s
  addRoundKey (invSubBytes (invShiftRows s)) (w 0)

/-! ### key expansion (Fig. 11) on 4-byte words -/

def rotWord : Col → Col
  | (a, b, c, d) => (b, c, d, a)

def subWord : Col → Col := mapCol sbox

/-- `Rcon[i] = (x^(i-1), 0, 0, 0)` -/
def rconWord (i : Nat) : Col := (gpow 2 (i - 1), 0, 0, 0)

/-- `w[i]` for `i ≥ Nk`, given the words so far (most recent first: `prev = w[i-1] :: w[i-2] :: …`) -/
def nextWord (nk i : Nat) (prev : List Col) : Col :=
  let temp := prev.headD (0, 0, 0, 0)
  let temp :=
    if i % nk = 0 then xorCol (subWord (rotWord temp)) (rconWord (i / nk))
    else if nk > 6 ∧ i % nk = 4 then subWord temp
    else temp
  xorCol (prev.getD (nk - 1) (0, 0, 0, 0)) temp

def expandFrom (nk total : Nat) : Nat → Nat → List Col → List Col
  | 0, _, prev => prev
  | fuel+1, i, prev => if i < total then expandFrom nk total fuel (i + 1) (nextWord nk i prev :: prev) else prev

/-- KeyExpansion: the `4·(Nr+1)` words, in order -/
def keyExpansion (keyWords : List Col) (nr : Nat) : List Col :=
  let nk := keyWords.length
  let total := 4 * (nr + 1)
  (expandFrom nk total total nk keyWords.reverse).reverse

def stateOfBytes (b : List Nat) : State :=
  let g (i : Nat) := b.getD i 0
  ((g 0, g 1, g 2, g 3), (g 4, g 5, g 6, g 7), (g 8, g 9, g 10, g 11), (g 12, g 13, g 14, g 15))

def bytesOfCol : Col → List Nat
  | (a, b, c, d) => [a, b, c, d]

def bytesOfState : State → List Nat
  | (c0, c1, c2, c3) => bytesOfCol c0 ++ bytesOfCol c1 ++ bytesOfCol c2 ++ bytesOfCol c3

def colsOfBytes : List Nat → List Col
  | a :: b :: c :: d :: rest => (a, b, c, d) :: colsOfBytes rest
  | _ => []

/-- round key `r` of an expanded key -/
def roundKey (w : List Col) (r : Nat) : State :=
  let z : Col := (0, 0, 0, 0)
  (w.getD (4 * r) z, w.getD (4 * r + 1) z, w.getD (4 * r + 2) z, w.getD (4 * r + 3) z)

/-- AES-128/192/256 encryption of one block under a key of 16/24/32 bytes -/
def aesEncrypt (key block : List Nat) : List Nat :=
  let kw := colsOfBytes key
  let nr := kw.length + 6
  bytesOfState (cipher (roundKey (keyExpansion kw nr)) nr (stateOfBytes block))

def aesDecrypt (key block : List Nat) : List Nat :=
  let kw := colsOfBytes key
  let nr := kw.length + 6
  bytesOfState (invCipher (roundKey (keyExpansion kw nr)) nr (stateOfBytes block))

end Bec2Verif.Spec.Fips
