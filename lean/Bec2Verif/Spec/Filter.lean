import Bec2Verif.Model.Bf2
/-!
What a platform filter (`PFID2` filter bytes behind the two-byte header) MEANS, written declaratively, and the notation the
importer's summary comment uses for it.

Each entry is 16 bits: bits 0–13 the hardware component id, bit 14 "not", bit 15 "or with the next entry".  Entries up to and
including the first one without bit 15 form a group; a device matches the filter when every group has an entry that matches
(the id is present, or absent for a negated entry).  A trailing run of entries that all carry bit 15 closes no group and is
not part of the expression (that is how the code reads it).
-/
namespace Bec2Verif.Spec.Filter
open Bec2Verif Bec2Verif.Bf2

structure Lit where
  hw : Nat
  neg : Bool
  deriving DecidableEq, Repr

/-- the entries: literal and "or with the next" flag -/
def entries : Bytes → List (Lit × Bool)
  | hi :: lo :: r =>
    let e := hi.toNat * 256 + lo.toNat
    (⟨e % 0x4000, e / 0x4000 % 2 = 1⟩, e / 0x8000 % 2 = 1) :: entries r
  | _ => []

/-- the groups (conjunction of disjunctions) -/
def groups : List (Lit × Bool) → List Lit → List (List Lit)
  | [], _ => []
  | (l, true) :: r, cur => groups r (cur ++ [l])
  | (l, false) :: r, cur => (cur ++ [l]) :: groups r []

/-- the filter as a predicate on the set of hardware components a device has -/
def accepts (gs : List (List Lit)) (has : Nat → Bool) : Bool :=
  gs.all (fun g => g.any (fun l => has l.hw != l.neg))

/-- notation: a literal is the component's name (or `0xHHHH`), prefixed by `!` when negated … -/
def renderLit (l : Lit) : Text.Str :=
  let nm := match hwcName l.hw with | some n => n | none => "0x".toList ++ hex4Upper l.hw
  if l.neg then '!' :: nm else nm

/-- … a group of one literal is that literal, a larger group its literals joined by ` | ` in parentheses … -/
def renderGroup (g : List Lit) : Text.Str :=
  if g.length = 1 then joinWith [] (g.map renderLit) else ['('] ++ joinWith " | ".toList (g.map renderLit) ++ [')']

/-- … and the groups are joined by ` & ` -/
def render (gs : List (List Lit)) : Text.Str := joinWith " & ".toList (gs.map renderGroup)

end Bec2Verif.Spec.Filter
