/-
Declarative CRC-16/MCRF4XX: reflected polynomial 0x8408 (x^16+x^12+x^5+1),
bit-serial, no final XOR.  Written without looking at the implementation.
-/
namespace Bec2Verif.Spec.Crc

/-- shift one bit out (LSB first); feed back the polynomial when the bit was 1 -/
def bit1 (x : Nat) : Nat :=
  if x % 2 = 1 then (x >>> 1) ^^^ 0x8408 else x >>> 1

def bit8 (x : Nat) : Nat := bit1 (bit1 (bit1 (bit1 (bit1 (bit1 (bit1 (bit1 x)))))))

/-- absorb one byte -/
def step (cur c : Nat) : Nat := bit8 (cur ^^^ c)

def crc (data : List Nat) (start : Nat := 0xFFFF) : Nat := data.foldl step start

end Bec2Verif.Spec.Crc
