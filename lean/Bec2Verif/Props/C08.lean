import Bec2Verif.Lemmas.Frame
import Bec2Verif.Props.C16
/-!
# C08 — AES auth-block container: exact framing, exact inverse, errors on wrong marker/CRC
-/
namespace Bec2Verif.Props.C08
open Bec2Verif Bec2Verif.Bf3 Bec2Verif.Bec2

/-- frame shape for every payload of 0..253 bytes: `'B'`, length byte = payload length + 2,
1..16 zero bytes, payload, CRC-16 — a whole number of 16-byte blocks handed to the cipher -/
theorem wrap_frame (C : Crypto) (key p : Bytes) (h : p.length ≤ 253) :
    ∃ z, 1 ≤ z ∧ z ≤ 16 ∧ (2 + z + p.length + 2) % 16 = 0 ∧
      wrap C key p = C.encrypt key none
        ([0x42] ++ [UInt8.ofNat (p.length + 2)] ++ zeros z ++ p ++ toBE 2 (crcOf p)) := by
  have hz := pad_formula p.length
  simp only at hz
  refine ⟨(16 - (2 + 1 + p.length + 2) % 16) % 16 + 1, hz.1, hz.2.1, hz.2.2, ?_⟩
  have h1 : toBytesBE 2 (crcOf p) = .ok (toBE 2 (crcOf p)) := by
    simp [toBytesBE, crcOf_lt p]
  have h2 : toBytesBE 1 (p.length + 2) = .ok [UInt8.ofNat (p.length + 2)] := by
    have : p.length + 2 < 256 ^ 1 := by omega
    have hm : (p.length + 2) % 256 = p.length + 2 := Nat.mod_eq_of_lt (by omega)
    simp only [toBytesBE, this, if_true, toBE, List.nil_append, hm]
  simp only [wrap, h1, bind, Except.bind, toBE_length, h2]

/-- payloads of 254 bytes or more are refused by the writer (`OverflowError`) -/
theorem wrap_overflow (C : Crypto) (key p : Bytes) (h : 254 ≤ p.length) :
    wrap C key p = .error .overflowError := by
  have h1 : toBytesBE 2 (crcOf p) = .ok (toBE 2 (crcOf p)) := by
    simp [toBytesBE, crcOf_lt p]
  have h2 : toBytesBE 1 (p.length + 2) = .error .overflowError := by
    have : ¬ (p.length + 2 < 256 ^ 1) := by omega
    simp [toBytesBE, this]
  simp only [wrap, h1, bind, Except.bind, toBE_length, h2]

/-- exact inverse, for every crypto plug-in that inverts its own zero-padded encryption -/
theorem unwrap_wrap (C : Crypto) (hC : CryptoInv C) (key p c : Bytes) (h : wrap C key p = .ok c) :
    unwrap C key c = .ok p := Bec2Verif.unwrap_wrap C hC key p c h

/-- … in particular for the registered adapter over any invertible block cipher
(for the bundled AES, `BlockInv aesCipher` is C16's obligation) -/
theorem unwrap_wrap_adapter (B : BlockCipher) (hB : BlockInv B) (key p c : Bytes)
    (h : wrap (Adapter.crypto B) key p = .ok c) : unwrap (Adapter.crypto B) key c = .ok p :=
  Bec2Verif.unwrap_wrap _ (adapter_cryptoInv B hB) key p c h

/-- … and, the hypothesis discharged (C16 `aes_blockInv`), for the bundled AES plug-in outright -/
theorem unwrap_wrap_aes (key p c : Bytes) (h : wrap aesCrypto key p = .ok c) : unwrap aesCrypto key c = .ok p :=
  unwrap_wrap_adapter aesCipher Props.C16.aes_blockInv key p c h

/-- a frame whose first byte is not `'B'` is reported as the BEC2 format error -/
theorem bad_marker_rejected (n : Nat) (m : UInt8) (rest : Bytes) (h : m ≠ 0x42) :
    parseFrame n (m :: rest) = .error .formatBec2 := by
  have ht : take 1 (m :: rest) = .ok ([m], rest) := by simp [take]
  unfold parseFrame
  rw [ht]
  have : ([m] != [(0x42 : UInt8)]) = true := by simp [h]
  simp only [bind, Except.bind, this, if_true]

/-- a decrypted frame with the right marker and length byte but a CRC that does not match its
payload is reported as the BEC2 format error -/
theorem bad_crc_rejected (n : Nat) (lb : UInt8) (pad payload crcb : Bytes)
    (hl : lb.toNat = payload.length + 2) (hn : n = 2 + pad.length + payload.length + 2)
    (hc : crcb.length = 2) (hbad : crcOf payload ≠ fromBE crcb) :
    parseFrame n ([0x42, lb] ++ pad ++ payload ++ crcb) = .error .formatBec2 := by
  have ht1 : take 1 ([0x42, lb] ++ pad ++ payload ++ crcb) = .ok ([0x42], [lb] ++ pad ++ payload ++ crcb) := by
    simp [take]
  have ht2 : take 1 ([lb] ++ pad ++ payload ++ crcb) = .ok ([lb], pad ++ payload ++ crcb) := by
    simp [take]
  have hfb : fromBE [lb] = lb.toNat := by simp [fromBE]
  have hdrop : ([0x42, lb] ++ pad ++ payload ++ crcb : Bytes).drop (n - (payload.length + 2)) = payload ++ crcb := by
    have h1 : n - (payload.length + 2) = ([0x42, lb] ++ pad : Bytes).length := by simp; omega
    rw [h1]
    have := List.drop_left' (l₁ := ([0x42, lb] ++ pad : Bytes)) (l₂ := payload ++ crcb) rfl
    simp [List.append_assoc] at this ⊢
  have hnlt : ¬ (n < payload.length + 2) := by omega
  have hn2 : ¬ (payload.length + 2 < 2) := by omega
  unfold parseFrame
  rw [ht1]
  simp only [bind, Except.bind, bne_self_eq_false, Bool.false_eq_true, if_false]
  rw [ht2]
  simp only [hfb, hl, hnlt, hn2, if_false, hdrop, Nat.add_sub_cancel, take_append]
  rw [take_all crcb hc]
  simp [hbad]

/-- the security-code variant derives its AES key as the first 16 bytes of the hash of the code -/
theorem csc_key (sha : Bytes → Bytes) (code : Bytes) :
    cscKey sha code = (sha code).take 16 := rfl

theorem consts_pinned :
    Gen.AES_BLOCK_SIZE = 16 ∧ Gen.AES_KEY_SIZE = 16 ∧ Gen.CUSTOMER_KEY_SIZE = 10 ∧
    Gen.CUSTOMER_KEY_PLACEHOLDER = List.replicate 10 0 := by decide

/-- non-vacuity: the frame of a 5-byte payload whose CRC low byte is 0x00 has 6 padding bytes (tests) -/
example : (16 - (2 + 1 + 5 + 2) % 16) % 16 + 1 = 7 := by decide
example : crcOf [0x00, 0xAA, 0x78, 0x79, 0x7A] = 0xF300 := by decide

end Bec2Verif.Props.C08
