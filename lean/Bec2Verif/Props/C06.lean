import Bec2Verif.Lemmas.Writer
import Bec2Verif.Lemmas.Frame
import Bec2Verif.Props.C16
/-!
# C06 — encrypted components are stored only as ciphertext and decrypt to the original
-/
namespace Bec2Verif.Props.C06
open Bec2Verif Bec2Verif.Bf3 Bec2Verif.Spec.Layout

/-- what goes into the file for a component marked for session-key encryption is the plug-in's
encryption of the zero-padded content — nothing else -/
theorem stored_is_ciphertext (C : Crypto) (key : Bytes) (c : Comp) (h : c.enc = true) :
    getRawData C key c = C.encrypt key none (zeroPad c.blob) := by
  simp [getRawData, h]

/-- … which for the registered adapter is AES-128-CBC with the all-zero IV over the zero-padded content -/
theorem stored_is_cbc_zero_iv (B : BlockCipher) (key : Bytes) (c : Comp) (k : B.K) (h : c.enc = true)
    (hk : B.sched key = .ok k) (hne : c.blob ≠ []) :
    getRawData (Adapter.crypto B) key c =
      .ok (cbcEncBlocks B k (zeros 16) (chunks 16 (zeroPad c.blob))).flatten := by
  rw [stored_is_ciphertext _ key c h]
  have hz : zeroPad (zeroPad c.blob) = zeroPad c.blob := zeroPad_of_aligned _ (zeroPad_len_mod _)
  have hne' : zeroPad c.blob ≠ [] := by
    intro h0; apply hne; simp [zeroPad] at h0; exact h0.1
  have := Props.C16.adapter_encrypt_spec B key none (zeroPad c.blob) k hk (by intro v hv; cases hv) hne'
  rw [hz] at this
  simpa [Adapter.crypto] using this

theorem matches_rawDatas (C : Crypto) (key : Bytes) (res : List RawEntry) (comps : List Comp)
    (h : Matches C key res comps) : rawDatas C key comps = .ok (payloads res) := by
  induction res generalizing comps with
  | nil =>
    cases comps with
    | nil => rfl
    | cons c cs => exact absurd h (by simp [Matches])
  | cons re rs ih =>
    cases comps with
    | nil => exact absurd h (by simp [Matches])
    | cons c cs =>
      obtain ⟨⟨_, _, hraw⟩, hrest⟩ := h
      simp [rawDatas, hraw, ih cs hrest, payloads, bind, Except.bind, pure, Except.pure]

/-- the written file contains, per component, exactly these stored bytes as payload
(position by position: `Matches` links entry `i` to component `i`) -/
theorem file_payloads_are_stored_bytes (C : Crypto) (hm : MacLen C) (key : Bytes) (comps : List Comp) (off : Nat) (b : Bytes)
    (h : toBinary C comps off key = .ok b) :
    ∃ res, b = bodyBytes res ∧ Matches C key res comps ∧ rawDatas C key comps = .ok (payloads res) := by
  obtain ⟨res, _, hb, _, _, hmatch⟩ := toBinary_layout C hm key comps off b h
  exact ⟨res, hb, hmatch, matches_rawDatas C key res comps hmatch⟩

/-- reading returns the original content up to its declared length, flagged as encrypted -/
theorem read_decrypts (C : Crypto) (hC : CryptoInv C) (key : Bytes) (c : Comp) (raw : Bytes)
    (henc : c.enc = true) (htag : c.desc.lookup Gen.BF3TAG_ENC = some sessionKeyEnc)
    (hlen : 1 ≤ c.actualLen ∧ c.actualLen ≤ c.blob.length)
    (hraw : getRawData C key c = .ok raw) :
    ∃ c', readBack C key c raw = .ok c' ∧ c'.enc = true ∧ c'.desc = c.desc ∧ c'.actualLen = c.actualLen ∧
      c'.blob = zeroPad c.blob ∧ c'.blob.take c.actualLen = c.blob.take c.actualLen := by
  rw [stored_is_ciphertext C key c henc] at hraw
  have hdec := hC.decEnc _ _ _ _ hraw
  have hz : zeroPad (zeroPad c.blob) = zeroPad c.blob := zeroPad_of_aligned _ (zeroPad_len_mod _)
  rw [hz] at hdec
  have hcond : (c.desc.lookup Gen.BF3TAG_ENC == some sessionKeyEnc) = true := by simp [htag]
  have hne : c.actualLen ≠ 0 := by omega
  refine ⟨mkComp c.desc (zeroPad c.blob) (some c.actualLen) true, ?_, rfl, rfl, ?_, rfl, ?_⟩
  · simp [readBack, hcond, hdec, bind, Except.bind, pure, Except.pure]
  · cases hn : c.actualLen with
    | zero => exact absurd hn hne
    | succ n => rfl
  · simp only [mkComp, zeroPad]
    exact List.take_append_of_le_length hlen.2

/-- the same for the bundled AES plug-in, with no hypothesis about the cipher left (C16 `aes_plugin_instance`) -/
theorem read_decrypts_aes (key : Bytes) (c : Comp) (raw : Bytes)
    (henc : c.enc = true) (htag : c.desc.lookup Gen.BF3TAG_ENC = some sessionKeyEnc)
    (hlen : 1 ≤ c.actualLen ∧ c.actualLen ≤ c.blob.length)
    (hraw : getRawData aesCrypto key c = .ok raw) :
    ∃ c', readBack aesCrypto key c raw = .ok c' ∧ c'.enc = true ∧ c'.desc = c.desc ∧ c'.actualLen = c.actualLen ∧
      c'.blob = zeroPad c.blob ∧ c'.blob.take c.actualLen = c.blob.take c.actualLen :=
  read_decrypts aesCrypto Props.C16.aes_plugin_instance.1 key c raw henc htag hlen hraw

theorem dirEntries_congr (C : Crypto) (k : Bytes) (comps comps' : List Comp)
    (hk : List.map (fun c => (c.desc, c.actualLen, getRawData C k c)) comps =
      List.map (fun c => (c.desc, c.actualLen, getRawData C k c)) comps') :
    (∀ ndx adr, dirEntries C k comps ndx adr = dirEntries C k comps' ndx adr) ∧
      rawDatas C k comps = rawDatas C k comps' := by
  induction comps generalizing comps' with
  | nil =>
    cases comps' with
    | nil => exact ⟨fun _ _ => rfl, rfl⟩
    | cons _ _ => simp at hk
  | cons c cs ih =>
    cases comps' with
    | nil => simp at hk
    | cons c' cs' =>
      simp only [List.map_cons, List.cons.injEq, Prod.mk.injEq] at hk
      obtain ⟨⟨hd, ha, hr⟩, hrest⟩ := hk
      have hent : ∀ ndx adr, dirEntry C k c ndx adr = dirEntry C k c' ndx adr := by
        intro ndx adr; simp only [dirEntry, hd, ha, hr]
      obtain ⟨ih1, ih2⟩ := ih cs' hrest
      refine ⟨?_, ?_⟩
      · intro ndx adr
        simp only [dirEntries, hent]
        cases dirEntry C k c' ndx adr with
        | error e => rfl
        | ok v => simp only [bind, Except.bind, ih1]
      · simp only [rawDatas, hr, ih2]

/-- non-interference: the written bytes depend on a component only through its tags, its declared
length and its *stored* bytes (under the session key, and under the default key of the size pass);
the plaintext of an encrypted component reaches the output through `encrypt`/`mac` and nothing else -/
theorem noninterference (C : Crypto) (key : Bytes) (comps comps' : List Comp) (off : Nat)
    (h1 : List.map (fun c => (c.desc, c.actualLen, getRawData C key c)) comps =
         List.map (fun c => (c.desc, c.actualLen, getRawData C key c)) comps')
    (h2 : List.map (fun c => (c.desc, c.actualLen, getRawData C defaultKey c)) comps =
         List.map (fun c => (c.desc, c.actualLen, getRawData C defaultKey c)) comps') :
    toBinary C comps off key = toBinary C comps' off key := by
  obtain ⟨a1, a2⟩ := dirEntries_congr C key comps comps' h1
  obtain ⟨b1, _⟩ := dirEntries_congr C defaultKey comps comps' h2
  simp only [toBinary, dirToBinary, a1, a2, b1]

theorem rawDatas_ok_mem (C : Crypto) (key : Bytes) (comps : List Comp) (raws : Bytes)
    (h : rawDatas C key comps = .ok raws) (c : Comp) (hc : c ∈ comps) : ∃ r, getRawData C key c = .ok r := by
  induction comps generalizing raws with
  | nil => simp at hc
  | cons c' cs ih =>
    simp only [rawDatas, Except.bind_eq_ok] at h
    obtain ⟨r, hr, rr, hrr, _⟩ := h
    simp only [List.mem_cons] at hc
    rcases hc with rfl | hc
    · exact ⟨r, hr⟩
    · exact ih rr hrr hc

/-- if the cipher is missing or fails for an encrypted component, writing fails — never plaintext -/
theorem cipher_failure_propagates (C : Crypto) (key : Bytes) (comps : List Comp) (off : Nat) (c : Comp) (e : Err)
    (hc : c ∈ comps) (hfail : getRawData C key c = .error e) :
    ∃ e', toBinary C comps off key = .error e' := by
  cases hr : toBinary C comps off key with
  | error e' => exact ⟨e', rfl⟩
  | ok b =>
    exfalso
    simp only [toBinary, Except.bind_eq_ok] at hr
    obtain ⟨_, _, _, _, raws, hraws, _⟩ := hr
    obtain ⟨r, hr'⟩ := rawDatas_ok_mem C key comps raws hraws c hc
    rw [hfail] at hr'
    cases hr'

/-- a plug-in that is not registered (every operation raises `NotImplementedError`) cannot write any component -/
def missingCrypto : Crypto :=
  { encrypt := fun _ _ _ => .error .notImplemented, decrypt := fun _ _ _ => .error .notImplemented,
    mac := fun _ _ _ => .error .notImplemented }

theorem unregistered_crypto_writes_nothing (key : Bytes) (c : Comp) (cs : List Comp) (off : Nat) :
    toBinary missingCrypto (c :: cs) off key = .error .notImplemented := by
  simp only [toBinary, dirToBinary, dirEntries, dirEntry, getRawData, missingCrypto, cmac]
  cases c.enc <;> simp [bind, Except.bind]

theorem consts_pinned : Gen.BF3TAG_ENC = 0xC2 ∧ Gen.BF3ENC_SESSIONKEY = 2 ∧ Gen.BF3TAG_TYPE = 0xC3 ∧
    Gen.BF3TYPE_CONFIGURATION = 3 ∧ Gen.BF3TAG_FMT = 0xC1 ∧ Gen.BF3FMT_TLVCFG = 3 ∧ Gen.BF3TAG_REBOOT = 0xC5 := by decide

end Bec2Verif.Props.C06
