import Bec2Verif.Lemmas.EcMulAdd
import Bec2Verif.Lemmas.EcAffine
import Bec2Verif.Lemmas.EcTotal
import Bec2Verif.Lemmas.P256Laws
import Bec2Verif.Lemmas.CertConsequences
/-!
# C17 — the arithmetic of python-ecdsa's points is the group law of the curve

`G(p, a, b)` below is Mathlib's group `WeierstrassCurve.Affine.Point` of the curve `y² = x³ + a x + b` over `ZMod p`
(associativity, commutativity, inverses are Mathlib theorems).  `PRep P pt` says that the object `pt` of the model
(a `PointJacobi` with arbitrary scaling `Z`, possibly with the unreduced `-Y` that `__neg__` and the NAF loop
produce, or the module-level `INFINITY`) represents the group element `P`.  Every theorem is for all representations,
all scalars (negative, zero, beyond the order) and every curve satisfying `CurveOK` (odd characteristic and no
point with `y = 0`, i.e. no 2-torsion — the library encodes infinity as `y = 0`, so on a curve with such a point its
arithmetic is wrong and the theorems do not apply; every curve of odd prime order qualifies).

The model functions are those of `Model/Ec.lean` / `Model/EcOps.lean`, which the correspondence check compares with
`ellipticcurve.py` coordinate by coordinate (raw Jacobian triples included).
-/
namespace Bec2Verif.C17
open Bec2Verif Ec EcC EcF WeierstrassCurve

variable {p : ℕ} [Fact p.Prime] {a b : ℤ}

/-- the group of the curve -/
abbrev G (p : ℕ) [Fact p.Prime] (a b : ℤ) := (W (a : ZMod p) (b : ZMod p)).Point

/-- `P + Q` (`__add__`): group addition, whatever the two representations are -/
theorem add_correct (hc : CurveOK p a b) (c : Curve) (hcp : c.p = p) (hca : c.a = a) {P Q : G p a b} {pt qt : Pt}
    (hP : PRep p a b P pt) (hQ : PRep p a b Q qt) : PRep p a b (P + Q) (Ec.add c pt qt) :=
  add_rep hc c hcp hca hP hQ

/-- `double()` -/
theorem double_correct (hc : CurveOK p a b) (c : Curve) (hcp : c.p = p) (hca : c.a = a) {P : G p a b} {pt : Pt}
    (hP : PRep p a b P pt) : PRep p a b (P + P) (Ec.double c pt) :=
  double_rep hc c hcp hca hP

/-- `-P` (`__neg__`) -/
theorem neg_correct {P : G p a b} {pt : Pt} (hP : PRep p a b P pt) : PRep p a b (-P) (Ec.neg pt) := neg_rep hP

/-- `P * k` (`__mul__`): NAF double-and-add, or the precomputed table when the object is a generator -/
theorem mul_correct (hc : CurveOK p a b) (c : Curve) (hcp : c.p = p) (hca : c.a = a) (P : PJ) {A : G p a b}
    (hP : PRep p a b A P.pt) (hord : P.order ≠ 0 → P.order • A = 0) (hgen : P.gen = true → 0 < P.order)
    (k : ℤ) {R : Pt} (h : pjMul c P k = some R) : PRep p a b (k • A) R :=
  pjMul_rep hc c hcp hca P hP hord hgen k h

/-- `P.mul_add(k₁, Q, k₂)` -/
theorem mulAdd_correct (hc : CurveOK p a b) (c : Curve) (hcp : c.p = p) (hca : c.a = a) (P : PJ) (Q : Option PJ)
    {A B : G p a b} (hP : PRep p a b A P.pt) (hQ : match Q with | none => B = 0 | some Q => PRep p a b B Q.pt)
    (hordA : P.order ≠ 0 → P.order • A = 0) (hordB : P.order ≠ 0 → P.order • B = 0)
    (hordQ : ∀ Q', Q = some Q' → Q'.order ≠ 0 → Q'.order • B = 0)
    (hgenP : P.gen = true → 0 < P.order) (hgenQ : ∀ Q', Q = some Q' → Q'.gen = true → 0 < Q'.order)
    (k1 k2 : ℤ) {R : Pt} (h : mulAdd c P k1 Q k2 = some R) : PRep p a b (k1 • A + k2 • B) R :=
  mulAdd_rep hc c hcp hca P Q hP hQ hordA hordB hordQ hgenP hgenQ k1 k2 h

/-- the modular inverse (extended Euclid with its step budget) never fails for a prime modulus and a value that is
not a multiple of it -/
theorem inverse_complete (m : ℕ) (hm : m.Prime) (v : ℤ) (hv : ¬ (m : ℤ) ∣ v) : ∃ zi, inverseMod v m = some zi :=
  inverseMod_complete m hm v hv

/-- `P * k` always returns a point (no exception from a failed inversion or from the generator's table running into
infinity — the latter needs `2^j • A ≠ 0`, true for every generator of odd order) … -/
theorem mul_total (hc : CurveOK p a b) (c : Curve) (hcp : c.p = p) (hca : c.a = a) (P : PJ) {A : G p a b}
    (hP : PRep p a b A P.pt) (hgen : P.gen = true → ∀ j : ℕ, (2 ^ j : ℕ) • A ≠ 0) (k : ℤ) :
    ∃ R, pjMul c P k = some R ∧ (((P.order ≠ 0 → P.order • A = 0) ∧ (P.gen = true → 0 < P.order)) → PRep p a b (k • A) R) := by
  obtain ⟨R, hR⟩ := pjMul_some hc c hcp hca P hP hgen k
  exact ⟨R, hR, fun h => pjMul_rep hc c hcp hca P hP h.1 h.2 k hR⟩

/-- … and so does `mul_add` with a second operand that is not a generator object -/
theorem mulAdd_total (hc : CurveOK p a b) (c : Curve) (hcp : c.p = p) (hca : c.a = a) (P Q : PJ) {A B : G p a b}
    (hP : PRep p a b A P.pt) (hQ : PRep p a b B Q.pt) (hgen : P.gen = true → ∀ j : ℕ, (2 ^ j : ℕ) • A ≠ 0)
    (hQg : Q.gen = false) (k1 k2 : ℤ) : ∃ R, mulAdd c P k1 (some Q) k2 = some R :=
  mulAdd_some hc c hcp hca P Q hP hQ hgen hQg k1 k2

/-- representation independence: two representations of the same element give representations of the same sum -/
theorem add_representation_independent (hc : CurveOK p a b) (c : Curve) (hcp : c.p = p) (hca : c.a = a)
    {P Q : G p a b} {pt pt' qt qt' : Pt} (h1 : PRep p a b P pt) (h1' : PRep p a b P pt')
    (h2 : PRep p a b Q qt) (h2' : PRep p a b Q qt') :
    PRep p a b (P + Q) (Ec.add c pt qt) ∧ PRep p a b (P + Q) (Ec.add c pt' qt') :=
  ⟨add_rep hc c hcp hca h1 h2, add_rep hc c hcp hca h1' h2'⟩

/-- the ECDH secret is the x-coordinate of `priv • Q` -/
theorem sharedSecret_correct (hc : CurveOK p a b) (d : Domain) (hcp : d.curve.p = p) (hca : d.curve.a = a)
    {Q : G p a b} {x y : ℤ} (hQ : TRep p a b Q (x, y, 1)) (priv s : ℤ) (h : sharedSecret d priv x y = .ok s) :
    ∃ x' y', ∃ hns : (W (a : ZMod p) (b : ZMod p)).Nonsingular x' y', priv • Q = .some x' y' hns ∧ (s : ZMod p) = x' :=
  sharedSecret_spec hc d hcp hca hQ priv s h

/-- both parties of an exchange derive the same secret -/
theorem ecdh_agree (hc : CurveOK p a b) (d : Domain) (hcp : d.curve.p = p) (hca : d.curve.a = a)
    (Gen : G p a b) (da db : ℤ) {xA yA xB yB : ℤ}
    (hA : TRep p a b (da • Gen) (xA, yA, 1)) (hB : TRep p a b (db • Gen) (xB, yB, 1)) {s1 s2 : ℤ}
    (h1 : sharedSecret d da xB yB = .ok s1) (h2 : sharedSecret d db xA yA = .ok s2) :
    (s1 : ZMod p) = (s2 : ZMod p) :=
  ecdh_symmetric hc d hcp hca Gen da db hA hB h1 h2

/-- the affine `Point` class: `+`, `double`, unary minus -/
theorem affine_add_correct (hc : CurveOK p a b) (c : Curve) (hcp : c.p = p) (hca : c.a = a) {A B : G p a b}
    {P Q r : APt} (hP : ARep p a b A P) (hQ : ARep p a b B Q) (h : aAdd c P Q = .ok r) : ARep p a b (A + B) r :=
  aAdd_rep hc c hcp hca hP hQ h

theorem affine_double_correct (hc : CurveOK p a b) (c : Curve) (hcp : c.p = p) (hca : c.a = a) {A : G p a b}
    {P r : APt} (hP : ARep p a b A P) (h : aDouble c P = .ok r) : ARep p a b (A + A) r :=
  aDouble_rep hc c hcp hca hP h

theorem affine_neg_correct (c : Curve) (hcp : c.p = p) {A : G p a b} {P r : APt} (hP : ARep p a b A P)
    (h : aNeg c P = .ok r) : ARep p a b (-A) r :=
  aNeg_rep c hcp hP h

/-! ### the hypotheses are satisfiable: one of the small curves of the exhaustive check -/

instance : Fact (Nat.Prime 23) := ⟨by decide⟩

/-- `y² = x³ - 3x + 8` over `F₂₃` (31 points): odd characteristic, no point with `y = 0` -/
theorem curveOK_23 : CurveOK 23 (-3) 8 := by
  refine ⟨by decide, ?_⟩
  intro x y h
  rw [W_equation] at h
  revert x y
  decide

/-! ### NIST P-256 (the curve bec2format uses): the hypotheses are theorems about the constants in the current source -/

/-- the field modulus of P-256 is prime (Lucas certificate, recursive, kernel-checked) … -/
theorem p256_field_prime : Nat.Prime Gen.NIST256p.p.toNat := Lucas.p256_p_prime

/-- … so is the group order … -/
theorem p256_order_prime : Nat.Prime Gen.NIST256p.n.toNat := Lucas.p256_n_prime

/-- … the curve meets `CurveOK` (in particular it has no point with `y = 0`: certificate in `F_p[x]/(x³ + ax + b)`) … -/
theorem p256_curveOK : CurveOK P256C.P P256C.cA P256C.cB := P256C.cOK

/-- … and the generator has order exactly `n` in Mathlib's group of the curve -/
theorem p256_generator_order (k : ℤ) : k • P256C.Gp = 0 ↔ (P256C.N : ℤ) ∣ k := P256C.g_ord_exact k

/-- hence, with nothing assumed: `generator * k` on P-256 always returns a point, and it represents `k • G` -/
theorem p256_generator_mul (k : ℤ) :
    ∃ R, pjMul P256.curve { X := P256C.gX, Y := P256C.gY, Z := 1, order := (P256C.N : ℤ), gen := true } k = some R ∧
      PRep P256C.P P256C.cA P256C.cB (k • P256C.Gp) R := by
  have hG : PRep P256C.P P256C.cA P256C.cB P256C.Gp
      (PJ.pt { X := P256C.gX, Y := P256C.gY, Z := 1, order := (P256C.N : ℤ), gen := true }) := P256C.g_trep
  obtain ⟨R, hR, hrep⟩ := mul_total P256C.cOK P256.curve P256C.curve_p P256C.curve_a _ hG (fun _ => P256C.g_nz) k
  exact ⟨R, hR, hrep ⟨fun _ => P256C.g_order, fun _ => by decide +kernel⟩⟩

/-! ### the named curves: certificates instead of hypotheses

For 14 of the 17 short-Weierstrass curves of the library the hypotheses of this file are theorems about the constants
found in the current source (`Lemmas/CurveCerts.lean`, generated): the field modulus is prime (recursive Lucas
certificates), the curve has no point with `y = 0` (certificate in `F_p[x]/(x³+ax+b)`), the generator is a point of the
group with reduced coordinates and `n·G = 0` (kernel evaluation of the model through `mul_correct`), `n` is odd.
Not certified: SECP112r2 (cofactor 4: it *has* a point of order 2) and brainpoolP384r1 / P512r1 (`p − 1` was not
factored by the tools at hand). -/

theorem certified_names : Cert.groupCertified.map (·.name) =
    ["NIST192p", "NIST224p", "NIST256p", "NIST384p", "NIST521p", "SECP256k1", "BRAINPOOLP160r1", "BRAINPOOLP192r1",
     "BRAINPOOLP224r1", "BRAINPOOLP256r1", "BRAINPOOLP320r1", "SECP112r1", "SECP128r1", "SECP160r1"] := by decide

/-- every listed curve carries its certificate -/
theorem certified_curves : ∀ r ∈ Cert.groupCertified, Cert.GroupCert r := Cert.groupCertified_ok

/-- **Diffie-Hellman on the certified curves, nothing assumed**: two parties whose public points were computed by the
library (`generator * secret`, affine) obtain the same result - the same integer, or both the same error -/
theorem ecdh_on_certified_curves (r : Gen.CurveRec) (hr : r ∈ Cert.groupCertified) (da db : ℤ) (A B : ℤ × ℤ)
    (hA : Cert.pubAffine r da = some A) (hB : Cert.pubAffine r db = some B) :
    sharedSecret (Cert.domOf r) da B.1 B.2 = sharedSecret (Cert.domOf r) db A.1 A.2 :=
  Cert.ecdh_certified r (Cert.groupCertified_ok r hr) da db A B hA hB

/-- odd characteristic for every prime other than 2 -/
theorem two_ne_zero_of_odd (hp2 : p ≠ 2) : (2 : ZMod p) ≠ 0 := by
  intro h
  have : ((2 : ℕ) : ZMod p) = 0 := by exact_mod_cast h
  rw [ZMod.natCast_eq_zero_iff] at this
  have hp := (Fact.out : p.Prime)
  have := Nat.le_of_dvd (by norm_num) this
  have h2 := hp.two_le
  omega

end Bec2Verif.C17
