import Bec2Verif.Lemmas.Filter
import Bec2Verif.Model.Bf2
import Bec2Verif.Lemmas.Bytes
/-!
# C13 — BF2 import preserves firmware bytes and rejects what BF3 cannot represent (payload level)

The theorems are about `bf2_unpack_payload` / `bf2_convert_payload`: for every image, every split into
data lines (any line sizes, any 64 KiB page crossings) the blob is exactly the image; a non-zero start and
a forward gap at any position are rejected; BF2-compatible sections are the raw lines in file order.
Memory images with any number of extents are recovered extent by extent.  The section state machine: what `emit` puts
into a component, ignored sections, the BF3-update marker.  The instruction-to-tag mapping and the annotations are tied
to the code by correspondence (see harness/c13.py); their totality and well-formedness are C14's theorems.
-/
namespace Bec2Verif.Props.C13
open Bec2Verif Bec2Verif.Bf2 Bec2Verif.Bf3

/-- line `l` carries `payload` for relative address `adr` (pages are counted from the first tag type `t0`) -/
def Carries (t0 : Nat) (l : Line) (adr : Int) (payload : Bytes) : Prop :=
  t0 ≤ l.typ ∧ ∃ off : Nat, off < 65536 ∧ payload.length ≤ 253 ∧
    l.tag = toBE 1 (payload.length + 2) ++ toBE 2 off ++ payload ∧
    ((l.typ : Int) - (t0 : Int)) * 0x10000 + off = adr

theorem linePayload_carries (t0 : Nat) (l : Line) (adr : Int) (p : Bytes) (h : Carries t0 l adr p) :
    linePayload t0 l = .ok (adr, p) ∧ (readInt 1 l.tag).map (·.1) = .ok (p.length + 2) := by
  obtain ⟨_, off, hoff, hlen, htag, hadr⟩ := h
  have h1 : readInt 1 l.tag = .ok (p.length + 2, toBE 2 off ++ p) := by
    rw [htag, List.append_assoc]; exact readInt_toBE 1 _ _ (by simp; omega)
  have h2 : readInt 2 (toBE 2 off ++ p) = .ok (off, p) := readInt_toBE 2 _ _ (by simpa using hoff)
  refine ⟨?_, by rw [h1]; rfl⟩
  unfold linePayload
  simp only [h1, bind, Except.bind, h2]
  have hnn : ¬ (((p.length + 2 : Nat) : Int) - 2 < 0) := by omega
  simp only [hnn, if_false]
  have htn : (((p.length + 2 : Nat) : Int) - 2).toNat = p.length := by omega
  rw [htn, take_all p rfl]
  simp [pure, Except.pure, hadr]

/-- the lines describe `image` contiguously from relative address `adr` -/
inductive Contiguous (t0 : Nat) : Int → List Line → Bytes → Prop
  | nil (adr : Int) : Contiguous t0 adr [] []
  | cons (adr : Int) (l : Line) (ls : List Line) (p rest : Bytes) (hc : Carries t0 l adr p)
      (hrest : Contiguous t0 (adr + p.length) ls rest) : Contiguous t0 adr (l :: ls) (p ++ rest)

theorem unpackStep_continue (t0 : Nat) (s : UState) (l : Line) (p : Bytes) (hc : Carries t0 l s.endAdr p)
    (hstart : s.start.isSome = true ∨ s.cur = []) :
    unpackStep t0 s l = .ok { blocks := s.blocks, start := (if s.start.isSome then s.start else some s.endAdr),
                              endAdr := s.endAdr + p.length, cur := s.cur ++ [p] } := by
  obtain ⟨hlp, hlen⟩ := linePayload_carries t0 l s.endAdr p hc
  have hri : ∃ r, readInt 1 l.tag = .ok (p.length + 2, r) := by
    cases h : readInt 1 l.tag with
    | error e => simp [h, Except.map] at hlen
    | ok v => simp [h, Except.map] at hlen; exact ⟨v.2, by rw [← hlen]⟩
  obtain ⟨r, hr⟩ := hri
  unfold unpackStep
  simp only [hlp, hr, bind, Except.bind, bne_self_eq_false, Bool.false_and, Bool.false_eq_true, if_false, pure, Except.pure]
  congr 1
  cases hs : s.start with
  | none => simp <;> omega
  | some st => simp <;> omega

/-- loop over a contiguous run that continues the current extent -/
theorem unpackLoop_contiguous (t0 : Nat) (lines : List Line) (img : Bytes) (s : UState)
    (h : Contiguous t0 s.endAdr lines img) (hstart : s.start.isSome = true ∨ s.cur = []) :
    ∃ s', unpackLoop t0 lines s = .ok s' ∧ s'.blocks = s.blocks ∧ s'.cur.flatten = s.cur.flatten ++ img ∧
      s'.endAdr = s.endAdr + img.length ∧ (lines ≠ [] → s'.cur ≠ []) ∧ (s.cur ≠ [] → s'.cur ≠ []) ∧
      s'.start = (if s.start.isSome || lines.isEmpty then s.start else some s.endAdr) := by
  induction lines generalizing s img with
  | nil =>
    cases h
    exact ⟨s, rfl, rfl, by simp, by simp, by simp, id, by simp⟩
  | cons l ls ih =>
    cases h with
    | cons _ _ _ p rest hc hrest =>
      have hstep := unpackStep_continue t0 s l p hc hstart
      obtain ⟨s', hl, hb, hf, he, _, hne, hst⟩ := ih rest
        { blocks := s.blocks, start := (if s.start.isSome then s.start else some s.endAdr),
          endAdr := s.endAdr + p.length, cur := s.cur ++ [p] } hrest (by
            left; cases s.start <;> simp)
      refine ⟨s', by simp only [unpackLoop, hstep, bind, Except.bind, hl], hb, ?_, ?_, fun _ => hne (by simp), fun _ => hne (by simp), ?_⟩
      · rw [hf]; simp [List.append_assoc]
      · rw [he]; simp only [List.length_append]; omega
      · rw [hst]; cases hs : s.start <;> simp

/-- **blob preserved**: for every image and every split into data lines starting at address 0 -/
theorem blob_preserved (lines : List Line) (img : Bytes) (t0 : Nat) (hne : lines ≠ [])
    (ht0 : ∀ l ∈ lines.head?, l.typ = t0) (h : Contiguous t0 0 lines img) :
    convertPayload lines Gen.BF3FMT_BLOB = .ok img := by
  cases lines with
  | nil => exact absurd rfl hne
  | cons l0 ls =>
    have hl0 : l0.typ = t0 := ht0 l0 (by simp)
    obtain ⟨s', hl, hb, hf, _, hcur, _, hst⟩ := unpackLoop_contiguous t0 (l0 :: ls) img
      { blocks := [], start := none, endAdr := 0, cur := [] } h (Or.inr rfl)
    have hcne := hcur (by simp)
    have hunp : unpackPayload (l0 :: ls) = .ok [(0, img)] := by
      simp only [unpackPayload, hl0, hl, bind, Except.bind, pure, Except.pure]
      have he : s'.cur.isEmpty = false := by cases hc : s'.cur <;> simp_all
      simp only [he, Bool.false_eq_true, if_false, hb, hst]
      simp [dictSetI, hf]
    have hne1 : (Gen.BF3FMT_BLOB = Gen.BF3FMT_BF2COMPATIBLE) = False := by decide
    simp only [convertPayload, hne1, if_false, if_true, hunp, bind, Except.bind, pure, Except.pure]

/-- **non-zero start rejected**: a blob section whose first line is not at address 0 -/
theorem blob_nonzero_start_rejected (lines : List Line) (img : Bytes) (t0 : Nat) (adr : Int) (hadr : adr ≠ 0)
    (hne : lines ≠ []) (ht0 : ∀ l ∈ lines.head?, l.typ = t0) (h : Contiguous t0 adr lines img) :
    convertPayload lines Gen.BF3FMT_BLOB = .error .formatBf3 := by
  cases lines with
  | nil => exact absurd rfl hne
  | cons l0 ls =>
    have hl0 : l0.typ = t0 := ht0 l0 (by simp)
    -- the first step: cur empty, start none, but endAdr = 0 ≠ adr: the code takes the `else` branch all the same
    cases h with
    | cons _ _ _ p rest hc hrest =>
      obtain ⟨hlp, hlen⟩ := linePayload_carries t0 l0 adr p hc
      have hri : ∃ r, readInt 1 l0.tag = .ok (p.length + 2, r) := by
        cases h : readInt 1 l0.tag with
        | error e => simp [h, Except.map] at hlen
        | ok v => simp [h, Except.map] at hlen; exact ⟨v.2, by rw [← hlen]⟩
      obtain ⟨r, hr⟩ := hri
      have hstep : unpackStep t0 { blocks := [], start := none, endAdr := 0, cur := [] } l0 =
          .ok { blocks := [], start := some adr, endAdr := adr + p.length, cur := [p] } := by
        unfold unpackStep
        simp only [hlp, hr, bind, Except.bind, List.isEmpty_nil, Bool.not_true, Bool.and_false, Bool.false_eq_true,
          if_false, pure, Except.pure, List.nil_append]
        congr 1
        simp <;> omega
      obtain ⟨s', hl, hb, hf, _, _, hcur, hst⟩ := unpackLoop_contiguous t0 ls rest
        { blocks := [], start := some adr, endAdr := adr + p.length, cur := [p] } hrest (Or.inl rfl)
      have hcne := hcur (by simp)
      have hunp : unpackPayload (l0 :: ls) = .ok [(adr, p ++ rest)] := by
        simp only [unpackPayload, hl0, unpackLoop, hstep, bind, Except.bind, hl, pure, Except.pure]
        have he : s'.cur.isEmpty = false := by cases hc : s'.cur <;> simp_all
        simp only [he, Bool.false_eq_true, if_false, hb, hst]
        simp [dictSetI, hf]
      have hne1 : (Gen.BF3FMT_BLOB = Gen.BF3FMT_BF2COMPATIBLE) = False := by decide
      simp only [convertPayload, hne1, if_false, if_true, hunp, bind, Except.bind, hadr, throw, throwThe, MonadExceptOf.throw]

/-- **gap rejected**: a contiguous run from 0, then a forward gap, then another contiguous run (gap at
any position, also before the last line) -/
theorem blob_gap_rejected (a b : List Line) (imgA imgB : Bytes) (t0 : Nat) (gap : Int) (hgap : 0 < gap)
    (hna : a ≠ []) (hnb : b ≠ []) (ht0 : ∀ l ∈ a.head?, l.typ = t0)
    (ha : Contiguous t0 0 a imgA) (hb : Contiguous t0 (imgA.length + gap) b imgB) :
    convertPayload (a ++ b) Gen.BF3FMT_BLOB = .error .formatBf3 := by
  cases a with
  | nil => exact absurd rfl hna
  | cons l0 as =>
    have hl0 : l0.typ = t0 := ht0 l0 (by simp)
    obtain ⟨s1, hl1, hb1, hf1, he1, hcur1, _, hst1⟩ := unpackLoop_contiguous t0 (l0 :: as) imgA
      { blocks := [], start := none, endAdr := 0, cur := [] } ha (Or.inr rfl)
    have hc1 := hcur1 (by simp)
    simp only [Option.isSome_none, Bool.false_or, List.isEmpty_cons, Bool.false_eq_true, if_false, Int.zero_add] at hst1 he1
    cases b with
    | nil => exact absurd rfl hnb
    | cons lb bs =>
      cases hb with
      | cons _ _ _ p rest hc hrest =>
        obtain ⟨hlp, hlen⟩ := linePayload_carries t0 lb _ p hc
        have hri : ∃ r, readInt 1 lb.tag = .ok (p.length + 2, r) := by
          cases h : readInt 1 lb.tag with
          | error e => simp [h, Except.map] at hlen
          | ok v => simp [h, Except.map] at hlen; exact ⟨v.2, by rw [← hlen]⟩
        obtain ⟨r, hr⟩ := hri
        have hne : ((imgA.length : Int) + gap != s1.endAdr) = true := by
          rw [he1]; simp; omega
        have hce : s1.cur.isEmpty = false := by cases hcc : s1.cur <;> simp_all
        have hstep : unpackStep t0 s1 lb =
            .ok { blocks := dictSetI s1.blocks (s1.start.getD 0) s1.cur.flatten, start := some (imgA.length + gap),
                  endAdr := imgA.length + gap + p.length, cur := [p] } := by
          unfold unpackStep
          simp only [hlp, hr, bind, Except.bind, hne, hce, Bool.not_false, Bool.and_self, if_true, pure, Except.pure,
            Option.isNone_some, Bool.false_eq_true, if_false]
          congr 1
          simp <;> omega
        obtain ⟨s2, hl2, hb2, hf2, _, _, hcur2, hst2⟩ := unpackLoop_contiguous t0 bs rest
          { blocks := dictSetI s1.blocks (s1.start.getD 0) s1.cur.flatten, start := some (imgA.length + gap),
            endAdr := imgA.length + gap + p.length, cur := [p] } hrest (Or.inl rfl)
        have hc2 := hcur2 (by simp)
        have hloop : unpackLoop t0 ((l0 :: as) ++ lb :: bs) { blocks := [], start := none, endAdr := 0, cur := [] } = .ok s2 := by
          have happ : ∀ (xs ys : List Line) (s s' : UState), unpackLoop t0 xs s = .ok s' →
              unpackLoop t0 (xs ++ ys) s = unpackLoop t0 ys s' := by
            intro xs
            induction xs with
            | nil => intro ys s s' h; simp [unpackLoop] at h; subst h; rfl
            | cons x xs ihx =>
              intro ys s s' h
              simp only [List.cons_append, unpackLoop] at h ⊢
              cases hx : unpackStep t0 s x with
              | error e => simp [hx, bind, Except.bind] at h
              | ok sx => simp only [hx, bind, Except.bind] at h ⊢; exact ihx ys sx s' h
          rw [happ _ _ _ _ hl1]
          simp only [unpackLoop, hstep, bind, Except.bind, hl2]
        have h2e : s2.cur.isEmpty = false := by cases hcc : s2.cur <;> simp_all
        have hunp : unpackPayload ((l0 :: as) ++ lb :: bs) =
            .ok [((0 : Int), imgA), ((imgA.length : Int) + gap, p ++ rest)] := by
          simp only [List.cons_append] at hloop ⊢
          simp only [unpackPayload, hl0, hloop, bind, Except.bind, pure, Except.pure, h2e, Bool.false_eq_true, if_false,
            hb2, hst2, hb1, hst1]
          simp [dictSetI, hf1, hf2]
          omega
        have hne1 : (Gen.BF3FMT_BLOB = Gen.BF3FMT_BF2COMPATIBLE) = False := by decide
        simp only [convertPayload, hne1, if_false, if_true, hunp, bind, Except.bind, throw, throwThe, MonadExceptOf.throw]

/-! ### memory images: any number of extents -/

theorem unpackLoop_append (t0 : Nat) : ∀ (xs ys : List Line) (s s' : UState), unpackLoop t0 xs s = .ok s' →
    unpackLoop t0 (xs ++ ys) s = unpackLoop t0 ys s' := by
  intro xs
  induction xs with
  | nil => intro ys s s' h; simp [unpackLoop] at h; subst h; rfl
  | cons x xs ihx =>
    intro ys s s' h
    simp only [List.cons_append, unpackLoop] at h ⊢
    cases hx : unpackStep t0 s x with
    | error e => simp [hx, bind, Except.bind] at h
    | ok sx => simp only [hx, bind, Except.bind] at h ⊢; exact ihx ys sx s' h

/-- a line that does not continue the current extent closes it and opens a new one -/
theorem unpackStep_break (t0 : Nat) (s : UState) (l : Line) (adr : Int) (p : Bytes) (hc : Carries t0 l adr p)
    (hne : adr ≠ s.endAdr) (hcur : s.cur ≠ []) :
    unpackStep t0 s l = .ok { blocks := dictSetI s.blocks (s.start.getD 0) s.cur.flatten, start := some adr,
                              endAdr := adr + p.length, cur := [p] } := by
  obtain ⟨hlp, hlen⟩ := linePayload_carries t0 l adr p hc
  have hri : ∃ r, readInt 1 l.tag = .ok (p.length + 2, r) := by
    cases h : readInt 1 l.tag with
    | error e => simp [h, Except.map] at hlen
    | ok v => simp [h, Except.map] at hlen; exact ⟨v.2, by rw [← hlen]⟩
  obtain ⟨r, hr⟩ := hri
  have hne' : (adr != s.endAdr) = true := by simpa using hne
  have hce : s.cur.isEmpty = false := by cases hcc : s.cur <;> simp_all
  unfold unpackStep
  simp only [hlp, hr, bind, Except.bind, hne', hce, Bool.not_false, Bool.and_self, if_true, pure, Except.pure,
    Option.isNone_some, Bool.false_eq_true, if_false]
  congr 1
  simp <;> omega

/-- one extent of a memory image: start address, bytes, and the data lines that carry them contiguously -/
structure Extent (t0 : Nat) where
  adr : Int
  img : Bytes
  lines : List Line
  nonempty : lines ≠ []
  contiguous : Contiguous t0 adr lines img

/-- no extent starts where its predecessor (in file order) ended - it would simply continue it -/
def Separated (t0 : Nat) : Int → List (Extent t0) → Prop
  | _, [] => True
  | endA, e :: es => e.adr ≠ endA ∧ Separated t0 (e.adr + e.img.length) es

theorem dictSetI_new (d : List (Int × Bytes)) (k : Int) (v : Bytes) (h : k ∉ d.map Prod.fst) :
    dictSetI d k v = d ++ [(k, v)] := by
  unfold dictSetI
  have : d.any (fun p => p.1 == k) = false := by
    rw [List.any_eq_false]
    intro x hx hxk
    exact h (List.mem_map.mpr ⟨x, hx, by simpa using hxk⟩)
  simp [this]

/-- processing further extents: every closed extent is recorded once, under its own start address -/
theorem unpackLoop_extents (t0 : Nat) (es : List (Extent t0)) (s : UState) (st : Int) (hst : s.start = some st)
    (hcur : s.cur ≠ [])
    (hsep : Separated t0 s.endAdr es)
    (hnd : (s.blocks.map Prod.fst ++ st :: es.map (·.adr)).Nodup) :
    ∃ s', unpackLoop t0 (es.flatMap (·.lines)) s = .ok s' ∧ s'.cur ≠ [] ∧ ∃ st', s'.start = some st' ∧
      s'.blocks ++ [(st', s'.cur.flatten)] =
        s.blocks ++ [(st, s.cur.flatten)] ++ es.map (fun e => (e.adr, e.img)) := by
  induction es generalizing s st with
  | nil => exact ⟨s, rfl, hcur, st, hst, by simp⟩
  | cons e es ih =>
    obtain ⟨hne, hsep'⟩ := hsep
    obtain ⟨eadr, eimg, elines, enonempty, econt⟩ := e
    simp only at hne hsep' ⊢
    cases elines with
    | nil => exact absurd rfl enonempty
    | cons l ls =>
      cases econt with
      | cons _ _ _ p rest hc hrest =>
        have himg : p ++ rest = p ++ rest := rfl
        have hl : (l :: ls) = (l :: ls) := rfl
        have hstep := unpackStep_break t0 s l eadr p hc hne hcur
        obtain ⟨s2, hl2, hb2, hf2, he2, _, hcur2, hst2⟩ := unpackLoop_contiguous t0 ls rest
          { blocks := dictSetI s.blocks (s.start.getD 0) s.cur.flatten, start := some eadr,
            endAdr := eadr + p.length, cur := [p] } hrest (Or.inl rfl)
        have hc2 := hcur2 (by simp)
        simp only [Option.isSome_some, Bool.true_or, if_true] at hst2
        have hkey : st ∉ s.blocks.map Prod.fst := by
          have := List.nodup_append.mp hnd
          intro hmem
          exact this.2.2 st hmem st (by simp) rfl
        have hblocks : s2.blocks = s.blocks ++ [(st, s.cur.flatten)] := by
          rw [hb2, hst]; exact dictSetI_new _ _ _ hkey
        have hend : s2.endAdr = eadr + ((p ++ rest).length : Int) := by
          rw [he2]; simp only [List.length_append]; omega
        have hnd2 : (s2.blocks.map Prod.fst ++ eadr :: es.map (·.adr)).Nodup := by
          rw [hblocks]
          simp only [List.map_append, List.map_cons, List.map_nil, List.append_assoc, List.cons_append, List.nil_append]
          simpa using hnd
        obtain ⟨s3, hl3, hc3, st3, hst3, hres⟩ := ih s2 eadr hst2 hc2 (by rw [hend]; exact hsep') hnd2
        refine ⟨s3, ?_, hc3, st3, hst3, ?_⟩
        · simp only [List.flatMap_cons]
          have h1 : unpackLoop t0 (l :: ls) s = .ok s2 := by
            simp only [unpackLoop, hstep, bind, Except.bind, hl2]
          rw [unpackLoop_append t0 _ _ _ _ h1, hl3]
        · rw [hres, hblocks, hf2]
          simp only [List.flatten_cons, List.flatten_nil, List.append_nil, List.map_cons, List.append_assoc,
            List.cons_append, List.nil_append]

/-- **memory images**: extents with pairwise distinct start addresses, none continuing its predecessor, given in any
order - every extent is recovered exactly once with exactly its bytes, then emitted sorted by address as
`address(4) ‖ length(4) ‖ data` -/
theorem memimage_extents (t0 : Nat) (e0 : Extent t0) (es : List (Extent t0))
    (ht0 : ∀ l ∈ e0.lines.head?, l.typ = t0)
    (hsep : Separated t0 (e0.adr + e0.img.length) es)
    (hnd : (e0.adr :: es.map (·.adr)).Nodup) :
    unpackPayload (e0.lines ++ es.flatMap (·.lines)) = .ok ((e0.adr, e0.img) :: es.map (fun e => (e.adr, e.img))) ∧
    convertPayload (e0.lines ++ es.flatMap (·.lines)) Gen.BF3FMT_MEMORYIMAGE =
      memImage (sortBlocks ((e0.adr, e0.img) :: es.map (fun e => (e.adr, e.img)))) := by
  have hunp : unpackPayload (e0.lines ++ es.flatMap (·.lines)) =
      .ok ((e0.adr, e0.img) :: es.map (fun e => (e.adr, e.img))) := by
    obtain ⟨adr0, img0, lines0, hne0, hcont0⟩ := e0
    simp only at ht0 hsep hnd ⊢
    cases lines0 with
    | nil => exact absurd rfl hne0
    | cons l0 ls =>
      have hl0 : l0.typ = t0 := ht0 l0 (by simp)
      cases hcont0 with
      | cons _ _ _ p rest hc hrest =>
        obtain ⟨hlp, hlen⟩ := linePayload_carries t0 l0 adr0 p hc
        have hri : ∃ r, readInt 1 l0.tag = .ok (p.length + 2, r) := by
          cases h : readInt 1 l0.tag with
          | error e => simp [h, Except.map] at hlen
          | ok v => simp [h, Except.map] at hlen; exact ⟨v.2, by rw [← hlen]⟩
        obtain ⟨r, hr⟩ := hri
        have hstep : unpackStep t0 { blocks := [], start := none, endAdr := 0, cur := [] } l0 =
            .ok { blocks := [], start := some adr0, endAdr := adr0 + p.length, cur := [p] } := by
          unfold unpackStep
          simp only [hlp, hr, bind, Except.bind, List.isEmpty_nil, Bool.not_true, Bool.and_false, Bool.false_eq_true,
            if_false, pure, Except.pure, List.nil_append]
          congr 1
          simp <;> omega
        obtain ⟨s1, hl1, hb1, hf1, he1, _, hcur1, hst1⟩ := unpackLoop_contiguous t0 ls rest
          { blocks := [], start := some adr0, endAdr := adr0 + p.length, cur := [p] } hrest (Or.inl rfl)
        have hc1 := hcur1 (by simp)
        simp only [Option.isSome_some, Bool.true_or, if_true] at hst1
        have hend : s1.endAdr = adr0 + ((p ++ rest).length : Int) := by
          rw [he1]; simp only [List.length_append]; omega
        obtain ⟨s2, hl2, hc2, st2, hst2, hres⟩ := unpackLoop_extents t0 es s1 adr0 hst1 hc1 (by rw [hend]; exact hsep)
          (by rw [hb1]; simpa using hnd)
        have hloop : unpackLoop t0 ((l0 :: ls) ++ es.flatMap (·.lines))
            { blocks := [], start := none, endAdr := 0, cur := [] } = .ok s2 := by
          have h1 : unpackLoop t0 (l0 :: ls) { blocks := [], start := none, endAdr := 0, cur := [] } = .ok s1 := by
            simp only [unpackLoop, hstep, bind, Except.bind, hl1]
          rw [unpackLoop_append t0 _ _ _ _ h1, hl2]
        have h2e : s2.cur.isEmpty = false := by cases hcc : s2.cur <;> simp_all
        have hkey2 : st2 ∉ s2.blocks.map Prod.fst := by
          -- keys of the final list are distinct
          have hall : ((s2.blocks ++ [(st2, s2.cur.flatten)]).map Prod.fst).Nodup := by
            rw [hres, hb1, hf1]
            simp only [List.nil_append, List.flatten_cons, List.flatten_nil, List.append_nil, List.map_append,
              List.map_cons, List.map_nil, List.map_map, List.cons_append]
            have : (List.map (Prod.fst ∘ fun e : Extent t0 => (e.adr, e.img)) es) = es.map (·.adr) := by
              apply List.map_congr_left; intro e _; rfl
            rw [this]; exact hnd
          rw [List.map_append, List.nodup_append] at hall
          intro hmem
          exact hall.2.2 st2 hmem st2 (by simp) rfl
        simp only [List.cons_append] at hloop
        simp only [List.cons_append, unpackPayload, hl0, hloop, bind, Except.bind, pure, Except.pure, h2e,
          Bool.false_eq_true, if_false, hst2, Option.getD_some]
        rw [dictSetI_new _ _ _ hkey2, hres, hb1, hf1]
        simp
  refine ⟨hunp, ?_⟩
  have hne1 : (Gen.BF3FMT_MEMORYIMAGE = Gen.BF3FMT_BF2COMPATIBLE) = False := by decide
  have hne2 : (Gen.BF3FMT_MEMORYIMAGE = Gen.BF3FMT_BLOB) = False := by decide
  simp only [convertPayload, hne1, hne2, if_false, if_true, hunp, bind, Except.bind]

/-! ### the section state machine -/

/-- **what a section becomes**: when `emit` adds a component, its payload is `bf2_convert_payload` of exactly the
section's data lines in the format the tag-type map prescribes, its description is what the instructions produce from
the map's entry, and the section's lines are consumed (each line of a non-ignored section is used once) -/
theorem emit_component (s s' : IState) (h : emit s = .ok s') (hnew : s'.comps ≠ s.comps) :
    ∃ l0 ty hw fmt intf d content, s.fwdata.head? = some l0 ∧
      Gen.BF2_TAGTYPE_MAP.lookup l0.typ = some (some ty, hw, fmt, intf) ∧
      (execInstrs s.instrs (desc0 ty (fmt.getD 0) hw intf) s.comments).1 = .ok d ∧
      convertPayload s.fwdata (fmt.getD 0) = .ok content ∧
      s'.comps = s.comps ++ [mkComp d content none false] ∧ s'.fwdata = [] := by
  unfold emit at h
  cases hfw : s.fwdata with
  | nil => simp [hfw] at h
  | cons l0 rest =>
    simp only [hfw] at h
    cases hmap : Gen.BF2_TAGTYPE_MAP.lookup l0.typ with
    | none => simp [hmap] at h
    | some ent =>
      obtain ⟨oty, hw, fmt, intf⟩ := ent
      cases oty with
      | none =>
        simp only [hmap] at h
        injection h with h; subst h; exact absurd rfl hnew
      | some ty =>
        simp only [hmap] at h
        cases hex : execInstrs s.instrs (desc0 ty (fmt.getD 0) hw intf) s.comments with
        | mk r rest2 =>
          obtain ⟨ins, cm⟩ := rest2
          cases r with
          | unsupported =>
            simp only [hex] at h
            injection h with h; subst h; exact absurd rfl hnew
          | error e =>
            simp only [hex] at h
            split at h <;> cases h
          | ok d =>
            simp only [hex] at h
            cases hcv : convertPayload (l0 :: rest) (fmt.getD 0) with
            | error e => simp [hcv, bind, Except.bind] at h
            | ok content =>
              simp only [hcv, bind, Except.bind, pure, Except.pure, Except.ok.injEq] at h
              subst h
              exact ⟨l0, ty, hw, fmt, intf, d, content, by simp, hmap, by rw [hex], hcv, rfl, rfl⟩

/-- sections whose tag type the map marks as ignored (prepare / activate), and sections whose instructions name an
unsupported combination, produce no component -/
theorem emit_ignored (s : IState) (l0 : Line) (rest : List Line) (hw fmt intf : Option Nat) (hfw : s.fwdata = l0 :: rest)
    (hmap : Gen.BF2_TAGTYPE_MAP.lookup l0.typ = some (none, hw, fmt, intf)) : emit s = .ok s := by
  unfold emit
  simp only [hfw, hmap]

/-- **firmware without the BF3-update marker is rejected** when compatibility is enforced -/
theorem marker_required (s : IState) (r : Comments × List Comp) (h : finish true s = .ok r) :
    ∃ s', (if s.fwdata.isEmpty then Except.ok s else emit s) = .ok s' ∧
      (lookupS s'.comments "Bf3Update".toList).isSome = true := by
  unfold finish at h
  generalize (if s.fwdata.isEmpty then Except.ok s else emit s) = g at h ⊢
  cases g with
  | error e => cases h
  | ok s' =>
    refine ⟨s', rfl, ?_⟩
    change (if (true && (lookupS s'.comments "Bf3Update".toList).isNone) = true then Except.error Err.unsupportedLegacy
      else _) = _ at h
    cases hl : lookupS s'.comments "Bf3Update".toList with
    | none => rw [hl] at h; cases h
    | some v => rfl

/-- an empty section is an error, not an empty component -/
theorem emit_empty_rejected (s : IState) (h : s.fwdata = []) : emit s = .error .formatBf3 := by
  unfold emit; simp [h]

/-- **BF2-compatible sections**: every line exactly once, in file order -/
theorem compat_concat (lines : List Line) : convertPayload lines Gen.BF3FMT_BF2COMPATIBLE = .ok (lines.flatMap (·.raw)) := by
  simp [convertPayload]

/-- tag types outside the known ranges are rejected by the importer's first check; the tag-type map and
the format / type numbers in the source are the documented ones -/
theorem maps_pinned :
    Gen.BF2_TAGTYPE_MAP = [(0x34, (none, none, none, none)), (0x35, (some 1, some 0x9B, some 0, some 5)),
      (0x39, (some 1, some 0xBE, some 0, none)), (0x3D, (some 1, some 0xAD, some 0, some 5)),
      (0x40, (some 1, some 0xC0, some 0, some 5)), (0x48, (none, none, none, none)), (0x70, (some 0, none, some 2, none)),
      (0x83, (some 0, none, some 2, none)), (0x84, (some 2, none, some 2, none))] ∧
    Gen.BF3FMT_BLOB = 0 ∧ Gen.BF3FMT_MEMORYIMAGE = 1 ∧ Gen.BF3FMT_BF2COMPATIBLE = 2 ∧
    Gen.BF3TYPE_LOADER = 0 ∧ Gen.BF3TYPE_PERIPHERAL = 1 ∧ Gen.BF3TYPE_MAIN = 2 ∧
    -- the tag types the importer knows: 34, 35-38 (SM4200), 39-3C (BLE), 3D-3E (PN5180), 40-47 (SM6300), 48, 70-73 (loader),
    -- 83 (single-bank loader), 84-A3 (main firmware)
    Gen.KNOWN_TAGTYPES = [0x34] ++ List.range' 0x35 4 ++ List.range' 0x39 4 ++ List.range' 0x3D 2 ++ List.range' 0x40 8 ++ [0x48] ++
      List.range' 0x70 4 ++ [0x83] ++ List.range' 0x84 32 := by decide

theorem unknown_tagtype_rejected (s : IState) (lines : List Line) (l0 : Line) (rest : List Line) (h : lines = l0 :: rest)
    (hu : isKnownTagtype l0.typ = false) : importStep s (.load lines) = .error .formatBf3 := by
  subst h
  simp [importStep, hu]

/-- **an ignored section swallows nothing**: data lines that follow a prepare / activate tag begin a section of their own —
whatever their tag type — so they are converted or rejected like any other section (before the repair D16 lines of a
continuation tag type were appended to the ignored data and silently dropped) -/
theorem ignored_section_swallows_nothing (s : IState) (f0 : Line) (frest : List Line) (hw fmt intf : Option Nat)
    (hfw : s.fwdata = f0 :: frest) (hmap : Gen.BF2_TAGTYPE_MAP.lookup f0.typ = some (none, hw, fmt, intf))
    (l0 : Line) (rest : List Line) (hk : isKnownTagtype l0.typ = true) :
    importStep s (.load (l0 :: rest)) = .ok { s with fwdata := l0 :: rest } := by
  have hai : afterIgnored s = true := by simp [afterIgnored, hfw, hmap]
  have hne : s.fwdata.isEmpty = false := by simp [hfw]
  simp only [importStep, hk, hai, hne, Bool.not_true, Bool.false_eq_true, if_false, Bool.or_true, Bool.not_false, Bool.and_self,
    if_true, emit_ignored s f0 frest hw fmt intf hfw hmap, bind, Except.bind, pure, Except.pure]

/-- … and a section that then consists of continuation pages only (its first line's tag type is not in the map) is rejected -/
theorem orphan_continuation_rejected (s : IState) (l0 : Line) (rest : List Line) (hfw : s.fwdata = l0 :: rest)
    (hmap : Gen.BF2_TAGTYPE_MAP.lookup l0.typ = none) : emit s = .error .unsupportedTagType := by
  unfold emit
  simp only [hfw, hmap]

example : Gen.BF2_TAGTYPE_MAP.lookup 0x34 = some (none, none, none, none) ∧ isKnownTagtype 0x3E = true ∧
    Gen.BF2_TAGTYPE_MAP.lookup 0x3E = none := by decide

/-- **the platform filter in the summary comment is the notation of what the filter bytes mean**: for every well-framed
filter (`01`, entry count, entries) the rendered text is `Spec.Filter.render` of `Spec.Filter.groups` of its entries — the
groups joined by ` & `, each group of more than one entry in parentheses with ` | ` between its literals, a literal the
component's name (or `0xHHHH`) with `!` when bit 14 is set — and `Spec.Filter.accepts` is that conjunction of disjunctions as
a predicate on the components a device has.  Every number of entries, every mix of flags. -/
theorem filter_text_is_notation_of_filter_bytes (n : UInt8) (r : Bytes) (hn : 2 + n.toNat * 2 = (1 :: n :: r).length) :
    pfid2FilterToStr (1 :: n :: r) =
      .ok (Spec.Filter.render (Spec.Filter.groups (Spec.Filter.entries r) [])) :=
  Spec.Filter.pfid2FilterToStr_render 1 n r rfl hn

/-- reading of the notation on an example: `01 03 | 80 9B | 00 AD | 40 BE` is "(SM4200 or PN5180) and not BGM12X" -/
example : Spec.Filter.groups (Spec.Filter.entries [0x80, 0x9B, 0x00, 0xAD, 0x40, 0xBE]) [] =
    [[⟨0x9B, false⟩, ⟨0xAD, false⟩], [⟨0xBE, true⟩]] := by decide
example : (match pfid2FilterToStr [0x01, 0x03, 0x80, 0x9B, 0x00, 0xAD, 0x40, 0xBE] with
    | .ok s => s == "(SM4200 | PN5180) & !BGM12X".toList | .error _ => false) = true := by decide +kernel
example : Spec.Filter.accepts [[⟨0x9B, false⟩, ⟨0xAD, false⟩], [⟨0xBE, true⟩]] (fun h => h == 0xAD) = true := by decide

end Bec2Verif.Props.C13
