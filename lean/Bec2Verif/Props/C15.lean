import Bec2Verif.Lemmas.Crc
import Bec2Verif.Gen.Consts
/-!
# C15 — the authentication-block checksum is CRC-16/MCRF4XX for all inputs

`Crc.stepPy`/`Crc.crcPy` model `crc8404B` (bec2file.py:29-39) statement by
statement on unbounded naturals.  `Spec.Crc` is the bit-serial definition with
reflected polynomial 0x8408, no final XOR.  The theorems quantify over every
16-bit start value and every byte string; nothing is enumerated except two
256-entry kernel evaluations inside `Lemmas/Crc.lean`.
-/
namespace Bec2Verif.Props.C15
open Bec2Verif Bec2Verif.Crc

theorem step_eq (cur c : Nat) (hcur : cur < 2 ^ 16) (hc : c < 256) :
    stepPy cur c = Spec.Crc.step cur c ∧ stepPy cur c < 2 ^ 16 := by
  have hx : cur ^^^ c < 2 ^ 16 :=
    Nat.xor_lt_two_pow hcur (by omega)
  have hh : (cur ^^^ c) >>> 8 < 256 := by
    rw [Nat.shiftRight_eq_div_pow]; omega
  have hl : (cur ^^^ c) &&& 0xFF < 256 := by
    have := @Nat.and_two_pow_sub_one_eq_mod (cur ^^^ c) 8
    simp at this; rw [this]; omega
  have e : Spec.Crc.step cur c = ((cur ^^^ c) >>> 8) ^^^ g ((cur ^^^ c) &&& 0xFF) := by
    unfold Spec.Crc.step
    conv => lhs; rw [split16 (cur ^^^ c)]
    rw [bit8_xor, bit8_high _ hh, bit8_low _ hl]
  rw [stepPy_eq cur c hc, e]
  refine ⟨rfl, ?_⟩
  exact Nat.xor_lt_two_pow (by omega) (g_bound _ hl)

theorem crc_eq (data : List Nat) (hdata : ∀ b ∈ data, b < 256) (start : Nat)
    (hs : start < 2 ^ 16) :
    crcPy data start = Spec.Crc.crc data start ∧ crcPy data start < 2 ^ 16 := by
  induction data generalizing start with
  | nil => exact ⟨rfl, hs⟩
  | cons b bs ih =>
    have hb : b < 256 := hdata b (by simp)
    have hstep := step_eq start b hs hb
    have := ih (fun x hx => hdata x (by simp [hx])) (stepPy start b) hstep.2
    simp only [crcPy, Spec.Crc.crc, List.foldl_cons] at this ⊢
    rw [← hstep.1]
    exact this

/-- default start value 0xFFFF -/
theorem crc_eq_default (data : List Nat) (hdata : ∀ b ∈ data, b < 256) :
    crcPy data = Spec.Crc.crc data ∧ crcPy data < 2 ^ 16 :=
  crc_eq data hdata 0xFFFF (by decide)

/-- the default start value in the source (regenerated every run) is the documented 0xFFFF -/
theorem default_start_pinned : Gen.CRC_DEFAULT_START = 0xFFFF := by decide

/-- non-vacuity / test vector (a test, labelled as a test): "123456789" ↦ 0x6F91 -/
example : crcPy [0x31,0x32,0x33,0x34,0x35,0x36,0x37,0x38,0x39] = 0x6F91 := by decide

end Bec2Verif.Props.C15
