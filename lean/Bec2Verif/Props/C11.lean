import Bec2Verif.Model.Tlv
import Bec2Verif.Lemmas.Bytes
/-!
# C11 — configuration updates are history-independent
-/
namespace Bec2Verif.Props.C11
open Bec2Verif Bec2Verif.Tlv Bec2Verif.ConfigId Bec2Verif.Bec2

def AtMostOneConfig (comps : List Bf3.Comp) : Prop := (comps.filter isConfig).length ≤ 1

theorem removeFirstConfig_others (comps : List Bf3.Comp) :
    (removeFirstConfig comps).filter (fun c => !isConfig c) = comps.filter (fun c => !isConfig c) := by
  induction comps with
  | nil => rfl
  | cons c cs ih =>
    unfold removeFirstConfig
    by_cases hc : isConfig c
    · simp [hc]
    · simp [hc, ih]

theorem removeFirstConfig_none (comps : List Bf3.Comp) (h : AtMostOneConfig comps) :
    (removeFirstConfig comps).filter isConfig = [] := by
  induction comps with
  | nil => rfl
  | cons c cs ih =>
    unfold removeFirstConfig
    by_cases hc : isConfig c
    · simp only [hc, if_true]
      unfold AtMostOneConfig at h
      simp only [List.filter_cons, hc, if_true, List.length_cons] at h
      exact List.length_eq_zero_iff.mp (by omega)
    · simp only [hc, Bool.false_eq_true, if_false, List.filter_cons]
      apply ih
      unfold AtMostOneConfig at h ⊢
      simpa [List.filter_cons, hc] using h

/-- the configuration component `set_config` builds for dictionary `d` and extra blocks -/
def configComp (d : ConfDict) (extra : List Bytes) : Except Err Bf3.Comp := do
  let blocks ← confDictToTlv d
  let blob ← blobOf (blocks ++ extra)
  pure { desc := configDesc, blob := blob, actualLen := blob.length, enc := true }

theorem configComp_isConfig (d : ConfDict) (extra : List Bytes) (c : Bf3.Comp) (h : configComp d extra = .ok c) :
    isConfig c = true := by
  simp only [configComp, Except.bind_eq_ok] at h
  obtain ⟨_, _, _, _, hp⟩ := h
  simp only [pure, Except.pure, Except.ok.injEq] at hp
  subst hp
  show (configDesc.lookup Gen.BF3TAG_TYPE == some [UInt8.ofNat Gen.BF3TYPE_CONFIGURATION]) = true
  decide

/-- **one configuration, last, most recent only; every other component untouched and in order** -/
theorem set_config_spec (comps : List Bf3.Comp) (d : ConfDict) (extra : List Bytes) (out : List Bf3.Comp)
    (hone : AtMostOneConfig comps) (h : setConfig comps d extra = .ok out) :
    ∃ c, configComp d extra = .ok c ∧ out.filter isConfig = [c] ∧ out.getLast? = some c ∧
      out.filter (fun c => !isConfig c) = comps.filter (fun c => !isConfig c) ∧ AtMostOneConfig out := by
  simp only [setConfig, Except.bind_eq_ok] at h
  obtain ⟨blocks, hb, blob, hbl, hp⟩ := h
  simp only [pure, Except.pure, Except.ok.injEq] at hp
  subst hp
  have hcc : configComp d extra = .ok { desc := configDesc, blob := blob, actualLen := blob.length, enc := true } := by
    simp [configComp, hb, hbl, bind, Except.bind, pure, Except.pure]
  have hic := configComp_isConfig d extra _ hcc
  refine ⟨_, hcc, ?_, by simp, ?_, ?_⟩
  · simp [List.filter_append, removeFirstConfig_none comps hone, hic]
  · simp [List.filter_append, removeFirstConfig_others, hic]
  · simp [AtMostOneConfig, List.filter_append, removeFirstConfig_none comps hone, hic]

/-- the result does not depend on which configuration was there before -/
theorem set_config_history_independent (comps comps' : List Bf3.Comp) (d : ConfDict) (extra : List Bytes)
    (out out' : List Bf3.Comp) (hone : AtMostOneConfig comps) (hone' : AtMostOneConfig comps')
    (hsame : comps.filter (fun c => !isConfig c) = comps'.filter (fun c => !isConfig c))
    (h : setConfig comps d extra = .ok out) (h' : setConfig comps' d extra = .ok out') :
    out.filter isConfig = out'.filter isConfig ∧
      out.filter (fun c => !isConfig c) = out'.filter (fun c => !isConfig c) := by
  obtain ⟨c, hc, h1, _, h2, _⟩ := set_config_spec comps d extra out hone h
  obtain ⟨c', hc', h1', _, h2', _⟩ := set_config_spec comps' d extra out' hone' h'
  rw [hc] at hc'
  injection hc' with hcc
  subst hcc
  exact ⟨by rw [h1, h1'], by rw [h2, h2', hsame]⟩

/-! ### operation sequences -/

inductive HOp where
  | setcfg (d : ConfDict) (extra : List Bytes)
  | append (c : Bf3.Comp)
  | insert (i : Nat) (c : Bf3.Comp)

def hstep (comps : List Bf3.Comp) : HOp → List Bf3.Comp
  | .setcfg d extra => match setConfig comps d extra with
    | .ok out => out
    | .error _ => removeFirstConfig comps        -- the deletion happened before the encoder raised
  | .append c => comps ++ [c]
  | .insert i c => comps.take i ++ [c] ++ comps.drop i

def nonConfigOp : HOp → Prop
  | .append c => isConfig c = false
  | .insert _ c => isConfig c = false
  | .setcfg _ _ => True

theorem filter_take_drop (comps : List Bf3.Comp) (i : Nat) (p : Bf3.Comp → Bool) :
    (comps.take i).filter p ++ (comps.drop i).filter p = comps.filter p := by
  rw [← List.filter_append, List.take_append_drop]

/-- **every reachable state holds at most one configuration component** (induction over the history) -/
theorem history_at_most_one (ops : List HOp) (comps : List Bf3.Comp) (h0 : AtMostOneConfig comps)
    (hops : ∀ o ∈ ops, nonConfigOp o) : AtMostOneConfig (ops.foldl hstep comps) := by
  induction ops generalizing comps with
  | nil => exact h0
  | cons o os ih =>
    apply ih _ _ (fun o' ho' => hops o' (by simp [ho']))
    have hno := hops o (by simp)
    cases o with
    | setcfg d extra =>
      simp only [hstep]
      cases hs : setConfig comps d extra with
      | ok out => exact (set_config_spec comps d extra out h0 hs).choose_spec.2.2.2.2
      | error e =>
        simp only [AtMostOneConfig, removeFirstConfig_none comps h0, List.length_nil]; omega
    | append c =>
      simp only [nonConfigOp] at hno
      simpa [hstep, AtMostOneConfig, List.filter_append, hno] using h0
    | insert i c =>
      simp only [nonConfigOp] at hno
      simp only [hstep, AtMostOneConfig, List.filter_append, List.filter_cons, hno, Bool.false_eq_true, if_false,
        List.filter_nil, List.append_nil, ← List.length_append]
      rw [filter_take_drop]
      exact h0

/-- … and right after any history that ends with `set_config d` the configuration component is the last
one and encodes `d` only, whatever happened before -/
theorem history_last_config (ops : List HOp) (comps : List Bf3.Comp) (d : ConfDict) (extra : List Bytes)
    (h0 : AtMostOneConfig comps) (hops : ∀ o ∈ ops, nonConfigOp o) (c : Bf3.Comp) (hc : configComp d extra = .ok c) :
    ((ops ++ [HOp.setcfg d extra]).foldl hstep comps).filter isConfig = [c] ∧
    ((ops ++ [HOp.setcfg d extra]).foldl hstep comps).getLast? = some c := by
  rw [List.foldl_append]
  have hone := history_at_most_one ops comps h0 hops
  simp only [List.foldl_cons, List.foldl_nil, hstep]
  cases hs : setConfig (ops.foldl hstep comps) d extra with
  | ok out =>
    obtain ⟨c', hc', h1, h2, _, _⟩ := set_config_spec _ d extra out hone hs
    rw [hc] at hc'
    injection hc' with hcc
    subst hcc
    exact ⟨h1, h2⟩
  | error e =>
    exfalso
    simp only [setConfig, configComp] at hs hc
    cases hb : confDictToTlv d with
    | error e' => simp [hb, bind, Except.bind] at hc
    | ok blocks =>
      simp only [hb, bind, Except.bind] at hs hc
      cases hbl : blobOf (blocks ++ extra) with
      | error e' => simp [hbl] at hc
      | ok blob => simp [hbl, pure, Except.pure] at hs

/-! ### derived comments -/

def derivedKeys : List Text.Str := ["Configuration".toList, "DeviceSettings".toList, "RequiresBusAddress".toList]

theorem dictSet_other {k k' : Text.Str} (cm : List (Text.Str × Text.Str)) (v : Text.Str) (h : k' ≠ k) :
    (Text.dictSet cm k v).filter (fun p => p.1 == k') = cm.filter (fun p => p.1 == k') := by
  induction cm with
  | nil => simp [Text.dictSet, Ne.symm h]
  | cons x xs ih =>
    obtain ⟨a, b⟩ := x
    unfold Text.dictSet
    by_cases hx : (a == k) = true
    · have hak : a = k := by simpa using hx
      subst hak
      simp [Ne.symm h]
    · simp only [hx, Bool.false_eq_true, if_false, List.filter_cons, ih]

theorem dictPop_other {k k' : Text.Str} (cm : List (Text.Str × Text.Str)) (h : k' ≠ k) :
    (dictPop cm k).filter (fun p => p.1 == k') = cm.filter (fun p => p.1 == k') := by
  unfold dictPop
  rw [List.filter_filter]
  congr 1
  funext p
  by_cases hp : p.1 = k'
  · subst hp; simp [h]
  · simp [hp]

/-- every comment other than the three derived ones is untouched -/
theorem derive_comments_others (cm out : List (Text.Str × Text.Str)) (d : ConfDict) (k' : Text.Str)
    (hk : k' ∉ derivedKeys) (h : deriveComments cm d = .ok out) :
    out.filter (fun p => p.1 == k') = cm.filter (fun p => p.1 == k') := by
  have h1 : k' ≠ "Configuration".toList := fun h => hk (by simp [derivedKeys, h])
  have h2 : k' ≠ "DeviceSettings".toList := fun h => hk (by simp [derivedKeys, h])
  have h3 : k' ≠ "RequiresBusAddress".toList := fun h => hk (by simp [derivedKeys, h])
  have fin : ∀ (b : Bool) (cm1 : List (Text.Str × Text.Str)),
      (cm1.filter (fun p => p.1 == k') = cm.filter (fun p => p.1 == k')) →
      (if b = true then dictSetS cm1 "RequiresBusAddress".toList "Yes".toList else dictPop cm1 "RequiresBusAddress".toList).filter
        (fun p => p.1 == k') = cm.filter (fun p => p.1 == k') := by
    intro b cm1 hcm1
    cases b
    · simp only [Bool.false_eq_true, if_false]; rw [dictPop_other _ h3, hcm1]
    · simp only [if_true, dictSetS]; rw [dictSet_other _ _ h3, hcm1]
  unfold deriveComments at h
  simp only [bind, Except.bind] at h
  cases hp : fromPrj d with
  | ok i =>
    simp only [hp, pure, Except.pure] at h
    cases hd : fromDev d with
    | ok j =>
      simp only [hd] at h
      injection h with h; subst h
      apply fin
      simp only [dictSetS]
      rw [dictSet_other _ _ h2, dictSet_other _ _ h1]
    | error e =>
      simp only [hd] at h
      cases e <;> simp only [throw, throwThe, MonadExceptOf.throw] at h <;> try cases h
      apply fin
      simp only [dictSetS]
      rw [dictPop_other _ h2, dictSet_other _ _ h1]
  | error e =>
    cases e <;> simp only [hp, throw, throwThe, MonadExceptOf.throw, pure, Except.pure] at h <;> try cases h
    cases hd : fromDev d with
    | ok j =>
      simp only [hd] at h
      injection h with h; subst h
      apply fin
      simp only [dictSetS]
      rw [dictSet_other _ _ h2, dictPop_other _ h1]
    | error e' =>
      simp only [hd] at h
      cases e' <;> simp only [throw, throwThe, MonadExceptOf.throw] at h <;> try cases h
      apply fin
      rw [dictPop_other _ h2, dictPop_other _ h1]

theorem lookup_dictSet_same (cm : List (Text.Str × Text.Str)) (k v : Text.Str) : (Text.dictSet cm k v).lookup k = some v := by
  induction cm with
  | nil => simp [Text.dictSet, List.lookup]
  | cons x xs ih =>
    obtain ⟨a, b⟩ := x
    unfold Text.dictSet
    by_cases hx : (a == k) = true
    · have : a = k := by simpa using hx
      subst this
      simp [List.lookup]
    · have hka : (k == a) = false := by
        have : a ≠ k := by simpa using hx
        simp [Ne.symm this]
      simp only [hx, Bool.false_eq_true, if_false, List.lookup, hka, ih]

theorem lookup_dictSet_other (cm : List (Text.Str × Text.Str)) (k k' v : Text.Str) (h : k' ≠ k) :
    (Text.dictSet cm k v).lookup k' = cm.lookup k' := by
  induction cm with
  | nil => simp [Text.dictSet, List.lookup, h]
  | cons x xs ih =>
    obtain ⟨a, b⟩ := x
    unfold Text.dictSet
    by_cases hx : (a == k) = true
    · have : a = k := by simpa using hx
      subst this
      have hka : (k' == a) = false := by simp [h]
      simp [List.lookup, hka]
    · simp only [hx, Bool.false_eq_true, if_false, List.lookup, ih]

theorem lookup_dictPop_same (cm : List (Text.Str × Text.Str)) (k : Text.Str) : (dictPop cm k).lookup k = none := by
  induction cm with
  | nil => rfl
  | cons x xs ih =>
    obtain ⟨a, b⟩ := x
    unfold dictPop at ih ⊢
    by_cases hx : a = k
    · subst hx; simpa [List.filter_cons] using ih
    · have hka : (k == a) = false := by simp [Ne.symm hx]
      simp [List.filter_cons, hx, List.lookup, hka, ih]

theorem lookup_dictPop_other (cm : List (Text.Str × Text.Str)) (k k' : Text.Str) (h : k' ≠ k) :
    (dictPop cm k).lookup k' = cm.lookup k' := by
  induction cm with
  | nil => rfl
  | cons x xs ih =>
    obtain ⟨a, b⟩ := x
    unfold dictPop at ih ⊢
    by_cases hx : a = k
    · subst hx
      have hka : (k' == a) = false := by simp [h]
      simpa [List.filter_cons, List.lookup, hka] using ih
    · by_cases hk' : k' = a
      · subst hk'; simp [List.filter_cons, hx, List.lookup]
      · have hka : (k' == a) = false := by simp [hk']
        simp [List.filter_cons, hx, List.lookup, hka, ih]

/-- the value of each derived comment after `derive_comments_from_config d` is a function of `d` alone -/
def expectedDerived (d : ConfDict) : Option Text.Str × Option Text.Str × Option Text.Str :=
  ((match fromPrj d with | .ok i => some (toStr i) | .error _ => none),
   (match fromDev d with | .ok i => some (toStr i) | .error _ => none),
   (match d.lookup (0x0620, some 0x20) with | some (some (_ :: _)) => some "Yes".toList | _ => none))

theorem derive_comments_last_only (cm out : List (Text.Str × Text.Str)) (d : ConfDict) (h : deriveComments cm d = .ok out) :
    (out.lookup "Configuration".toList, out.lookup "DeviceSettings".toList, out.lookup "RequiresBusAddress".toList)
      = expectedDerived d := by
  have n12 : ("Configuration".toList : Text.Str) ≠ "DeviceSettings".toList := by decide
  have n13 : ("Configuration".toList : Text.Str) ≠ "RequiresBusAddress".toList := by decide
  have n23 : ("DeviceSettings".toList : Text.Str) ≠ "RequiresBusAddress".toList := by decide
  have fin : ∀ (b : Bool) (cm1 : List (Text.Str × Text.Str)) (x y : Option Text.Str),
      cm1.lookup "Configuration".toList = x → cm1.lookup "DeviceSettings".toList = y →
      let o := (if b = true then dictSetS cm1 "RequiresBusAddress".toList "Yes".toList else dictPop cm1 "RequiresBusAddress".toList)
      (o.lookup "Configuration".toList, o.lookup "DeviceSettings".toList, o.lookup "RequiresBusAddress".toList) =
        (x, y, if b = true then some "Yes".toList else none) := by
    intro b cm1 x y hx hy
    cases b
    · simp only [Bool.false_eq_true, if_false]
      rw [lookup_dictPop_other _ _ _ n13, lookup_dictPop_other _ _ _ n23, lookup_dictPop_same, hx, hy]
    · simp only [if_true, dictSetS]
      rw [lookup_dictSet_other _ _ _ _ n13, lookup_dictSet_other _ _ _ _ n23, lookup_dictSet_same, hx, hy]
  have hbus : ∀ (m : Option (Option Bytes)),
      (if (match m with | some (some (_ :: _)) => true | _ => false) = true then some "Yes".toList else none) =
      (match m with | some (some (_ :: _)) => some "Yes".toList | _ => (none : Option Text.Str)) := by
    intro m
    rcases m with _ | _ | _ | ⟨_, _⟩ <;> rfl
  unfold deriveComments at h
  simp only [bind, Except.bind] at h
  unfold expectedDerived
  cases hp : fromPrj d with
  | ok i =>
    simp only [hp, pure, Except.pure] at h
    cases hd : fromDev d with
    | ok j =>
      simp only [hd] at h
      injection h with h; subst h
      rw [← hbus]
      apply fin
      · simp only [dictSetS]; rw [lookup_dictSet_other _ _ _ _ n12, lookup_dictSet_same]
      · simp only [dictSetS]; rw [lookup_dictSet_same]
    | error e =>
      simp only [hd] at h
      cases e <;> simp only [throw, throwThe, MonadExceptOf.throw] at h <;> try cases h
      rw [← hbus]
      apply fin
      · simp only [dictSetS]; rw [lookup_dictPop_other _ _ _ n12, lookup_dictSet_same]
      · rw [lookup_dictPop_same]
  | error e =>
    cases e <;> simp only [hp, throw, throwThe, MonadExceptOf.throw, pure, Except.pure] at h <;> try cases h
    cases hd : fromDev d with
    | ok j =>
      simp only [hd] at h
      injection h with h; subst h
      rw [← hbus]
      apply fin
      · simp only [dictSetS]; rw [lookup_dictSet_other _ _ _ _ n12, lookup_dictPop_same]
      · simp only [dictSetS]; rw [lookup_dictSet_same]
    | error e' =>
      simp only [hd] at h
      cases e' <;> simp only [throw, throwThe, MonadExceptOf.throw] at h <;> try cases h
      rw [← hbus]
      apply fin
      · rw [lookup_dictPop_other _ _ _ n12, lookup_dictPop_same]
      · rw [lookup_dictPop_same]

/-! ### derived auth blocks -/

/-- for a file that has none: exactly the requested initial block, plus an update block carrying
the security code and the identifier version exactly when both exist -/
theorem derive_auth_fresh (d : ConfDict) (cust : Bool) (out : List AuthBlock) (h : deriveAuth [] d cust = .ok out) :
    out = [if cust then AuthBlock.initCust else AuthBlock.initEcc 0] ∨
    ∃ code i, d.lookup (0x0202, some 0x82) = some (some code) ∧ cidOf d = .ok (some i) ∧
      out = [if cust then .initCust else .initEcc 0, .update code i.version] := by
  unfold deriveAuth at h
  have hadd : addBlock [] (if cust then AuthBlock.initCust else AuthBlock.initEcc 0) =
      [if cust then AuthBlock.initCust else AuthBlock.initEcc 0] := rfl
  simp only [hadd] at h
  cases hc : cidOf d with
  | error e => simp [hc] at h
  | ok cid =>
    simp only [hc] at h
    cases hl : d.lookup (0x0202, some 0x82) with
    | none => simp only [hl, Except.ok.injEq] at h; exact Or.inl h.symm
    | some co =>
      cases co with
      | none => simp only [hl, Except.ok.injEq] at h; exact Or.inl h.symm
      | some code =>
        cases cid with
        | none => simp only [hl, Except.ok.injEq] at h; exact Or.inl h.symm
        | some i =>
          simp only [hl, Except.ok.injEq] at h
          right
          refine ⟨code, i, rfl, rfl, ?_⟩
          rw [← h]
          cases cust <;> rfl

theorem addBlock_tags_nodup (bs : List AuthBlock) (b : AuthBlock) (h : (bs.map AuthBlock.tag).Nodup) :
    ((addBlock bs b).map AuthBlock.tag).Nodup := by
  unfold addBlock
  split
  · -- replace in place: the tag list is unchanged
    have : (bs.map (fun x => if (x.tag == b.tag) = true then b else x)).map AuthBlock.tag = bs.map AuthBlock.tag := by
      rw [List.map_map]
      apply List.map_congr_left
      intro x _
      simp only [Function.comp]
      by_cases hx : (x.tag == b.tag) = true
      · simp only [hx, if_true]; exact (by simpa using hx : x.tag = b.tag).symm
      · simp only [hx, Bool.false_eq_true, if_false]
    rw [this]; exact h
  · rename_i hno
    rw [List.map_append, List.nodup_append]
    refine ⟨h, by simp, ?_⟩
    intro a ha c hc
    simp only [List.map_cons, List.map_nil, List.mem_singleton] at hc
    subst hc
    intro heq
    apply hno
    simp only [List.mem_map] at ha
    obtain ⟨x, hx, rfl⟩ := ha
    simp only [List.any_eq_true, beq_iff_eq]
    exact ⟨x, hx, heq⟩

/-- repeated derivation never leaves more than one block per kind -/
theorem derive_auth_one_per_kind (bs : List AuthBlock) (d : ConfDict) (cust : Bool) (out : List AuthBlock)
    (hnd : (bs.map AuthBlock.tag).Nodup) (h : deriveAuth bs d cust = .ok out) : (out.map AuthBlock.tag).Nodup := by
  unfold deriveAuth at h
  have h1 := addBlock_tags_nodup bs (if cust then AuthBlock.initCust else AuthBlock.initEcc 0) hnd
  simp only at h
  cases hc : cidOf d with
  | error e => simp [hc] at h
  | ok cid =>
    simp only [hc] at h
    split at h
    · simp only [Except.ok.injEq] at h
      rw [← h]
      exact addBlock_tags_nodup _ _ h1
    · simp only [Except.ok.injEq] at h
      rw [← h]; exact h1

end Bec2Verif.Props.C11
