import Bec2Verif.Model.ConfigId
import Bec2Verif.Lemmas.Kernel
/-!
# C12 — configuration identifiers match the config and their text form round-trips
-/
namespace Bec2Verif.Props.C12
open Bec2Verif Bec2Verif.ConfigId Bec2Verif.Text

deriving instance DecidableEq for Except

/-! ### digits -/

theorem digitVal_digitChar_tab : allBelow (fun d => digitVal (digitChar d) == some d) 10 = true := by decide +kernel

theorem digitVal_digitChar (d : Nat) (h : d < 10) : digitVal (digitChar d) = some d := by
  have := allBelow_spec _ _ digitVal_digitChar_tab d h
  simpa using this

theorem takeDigits_add (a b : Nat) (s : Str) (acc : Nat) :
    takeDigits (a + b) s acc = (takeDigits a s acc).bind (fun r => takeDigits b r.2 r.1) := by
  induction a generalizing s acc with
  | zero => simp [takeDigits]
  | succ a ih =>
    rw [show a + 1 + b = (a + b) + 1 by omega]
    cases s with
    | nil => cases b <;> simp [takeDigits]
    | cons c s =>
      simp only [takeDigits]
      cases digitVal c with
      | none => rfl
      | some v => exact ih s _

theorem takeDigits_fixed (w n : Nat) (rest : Str) (acc : Nat) :
    takeDigits w (fixedDigits w n ++ rest) acc = some (acc * 10 ^ w + n % 10 ^ w, rest) := by
  induction w generalizing n rest acc with
  | zero => simp [takeDigits, fixedDigits, Nat.mod_one]
  | succ w ih =>
    simp only [fixedDigits, List.append_assoc]
    rw [takeDigits_add w 1, ih (n / 10) _ acc]
    simp only [Option.bind_some, List.singleton_append, takeDigits, digitVal_digitChar (n % 10) (Nat.mod_lt _ (by omega))]
    congr 2
    rw [Nat.pow_succ]
    have h1 : n % (10 ^ w * 10) = (n / 10 % 10 ^ w) * 10 + n % 10 := by
      rw [Nat.mul_comm (10 ^ w) 10, Nat.mod_mul, Nat.mul_comm]
      omega
    rw [h1]
    rw [Nat.add_mul, Nat.mul_assoc, Nat.mul_comm (10 ^ w) 10]
    omega

theorem takeDigits_pad0 (w n : Nat) (h : n < 10 ^ w) (rest : Str) :
    takeDigits w (pad0 w n ++ rest) 0 = some (n, rest) := by
  simp only [pad0, h, if_true]
  rw [takeDigits_fixed]
  simp [Nat.mod_eq_of_lt h]

/-! ### printing a numeric identifier -/

/-- names that survive printing and parsing: absent, or non-empty single-line text -/
def NameOK : Option Str → Prop
  | none => True
  | some n => n ≠ [] ∧ '\n' ∉ n

theorem firstLine_id (n : Str) (h : '\n' ∉ n) : firstLine n = n := by
  induction n with
  | nil => rfl
  | cons c cs ih =>
    simp only [List.mem_cons, not_or] at h
    have hc : (c == '\n') = false := by simp [Ne.symm h.1]
    simp [firstLine, hc, ih h.2]

theorem printed_numeric (c p dv v : Nat) (name : Option Str) (hc9 : c ≠ 9999) :
    toStr (mk (some c) (some p) (some dv) v name) =
      pad0 5 c ++ ['-'] ++ pad0 4 p ++ ['-'] ++ pad0 4 dv ++ ['-'] ++ pad0 2 v ++ nameSuffix name := by
  have hcu : unk (some c) = some c := by simp [unk, hc9, Gen.UNKNOWN]
  have hp : (unk (some p)).getD Gen.UNKNOWN = p := by
    by_cases h : p = 9999
    · simp [unk, h, Gen.UNKNOWN]
    · simp [unk, h, Gen.UNKNOWN]
  have hz : pad0 4 0 = ['0', '0', '0', '0'] := by decide
  have hd : (if unk (some dv) == some 0 then ['0', '0', '0', '0'] else pad0 4 ((unk (some dv)).getD Gen.UNKNOWN)) = pad0 4 dv := by
    by_cases h0 : dv = 0
    · simp [unk, h0, Gen.UNKNOWN, hz]
    · by_cases h9 : dv = 9999
      · simp [unk, h9, Gen.UNKNOWN]
      · simp [unk, h9, h0, Gen.UNKNOWN]
  simp only [toStr, mk, hcu, cfgidStr, hp, hd]

/-- **print → parse, numeric scheme**: every field range universally quantified (arithmetic on
digits, not enumeration) -/
theorem parse_print_numeric (c p dv v : Nat) (name : Option Str)
    (hc : c ≤ 99999) (hc9 : c ≠ 9999) (hp : p ≤ 9999) (hd : dv ≤ 9999) (hv : v ≤ 99) (hn : NameOK name) :
    fromStr (toStr (mk (some c) (some p) (some dv) v name)) = .ok (mk (some c) (some p) (some dv) v name) := by
  rw [printed_numeric c p dv v name hc9]
  have h1 := takeDigits_pad0 5 c (by omega)
  have h2 := takeDigits_pad0 4 p (by omega)
  have h3 := takeDigits_pad0 4 dv (by omega)
  have h4 := takeDigits_pad0 2 v (by omega)
  have hm : match1 (pad0 5 c ++ ['-'] ++ pad0 4 p ++ ['-'] ++ pad0 4 dv ++ ['-'] ++ pad0 2 v ++ nameSuffix name)
      = some (c, p, dv, v, name) := by
    unfold match1
    simp only [List.append_assoc, List.cons_append, List.nil_append, h1, Option.bind_eq_bind, Option.bind_some,
      List.singleton_append, expect, beq_self_eq_true, if_true, h2, h3, h4]
    cases name with
    | none => rfl
    | some n =>
      cases n with
      | nil => exact absurd rfl hn.1
      | cons x xs =>
        simp only [nameSuffix, Option.pure_def, Option.some.injEq, Prod.mk.injEq, true_and]
        rw [firstLine_id _ hn.2]
  simp only [fromStr, hm]

/-- **canonical text**: printing what was parsed from a printed numeric identifier returns the same text -/
theorem print_parse_canonical (c p dv v : Nat) (name : Option Str)
    (hc : c ≤ 99999) (hc9 : c ≠ 9999) (hp : p ≤ 9999) (hd : dv ≤ 9999) (hv : v ≤ 99) (hn : NameOK name) :
    (fromStr (toStr (mk (some c) (some p) (some dv) v name))).map toStr = .ok (toStr (mk (some c) (some p) (some dv) v name)) := by
  rw [parse_print_numeric c p dv v name hc hc9 hp hd hv hn]; rfl

/-! ### name-only identifiers -/

def suffixOf (v : Nat) : Str := versionPrefix ++ pad0 2 v ++ [')']

theorem printed_nameonly (v : Nat) (n : Str) :
    toStr (mk none none none v (some n)) = n ++ suffixOf v := by
  have : unk none = none := rfl
  simp only [toStr, mk, this, nameOrNone, suffixOf, List.append_assoc]

theorem digitChar_facts (d : Nat) (h : d < 10) :
    digitChar d ≠ ' ' ∧ digitChar d ≠ '(' ∧ digitChar d ≠ '\n' ∧ digitChar d ≠ ')' := by
  have : d = 0 ∨ d = 1 ∨ d = 2 ∨ d = 3 ∨ d = 4 ∨ d = 5 ∨ d = 6 ∨ d = 7 ∨ d = 8 ∨ d = 9 := by omega
  rcases this with h | h | h | h | h | h | h | h | h | h <;> subst h <;> decide

/-- the printed suffix with explicit digit characters -/
theorem suffixOf_eq (v : Nat) (hv : v ≤ 99) :
    suffixOf v = [' ', '(', 'v', 'e', 'r', 's', 'i', 'o', 'n', ' ', digitChar (v / 10 % 10), digitChar (v % 10), ')'] := by
  have h100 : (10 : Nat) ^ 2 = 100 := by decide
  have hlt : v < 10 ^ 2 := by omega
  have hfd : fixedDigits 2 v = [digitChar (v / 10 % 10), digitChar (v % 10)] := by
    simp only [fixedDigits, List.nil_append, List.cons_append]
  simp only [suffixOf, pad0, hlt, if_true, hfd, versionPrefix, List.cons_append, List.nil_append]

/-- matching pattern 2 on `name ++ " (version DD)"`: greedy `.*` ends exactly at the printed suffix -/
theorem match2_printed (n : Str) (v : Nat) (hv : v ≤ 99) (hn : '\n' ∉ n) (pre : Str) (best : Option (Str × Nat)) :
    match2Aux (n ++ suffixOf v) pre best = some (pre.reverse ++ n, v) := by
  induction n generalizing pre best with
  | nil =>
    rw [suffixOf_eq v hv]
    obtain ⟨a1, a2, a3, a4⟩ := digitChar_facts (v / 10 % 10) (Nat.mod_lt _ (by omega))
    obtain ⟨b1, b2, b3, b4⟩ := digitChar_facts (v % 10) (Nat.mod_lt _ (by omega))
    have hd1 := digitVal_digitChar (v / 10 % 10) (Nat.mod_lt _ (by omega))
    have hd2 := digitVal_digitChar (v % 10) (Nat.mod_lt _ (by omega))
    have hval : (0 * 10 + v / 10 % 10) * 10 + v % 10 = v := by omega
    simp [match2Aux, suffixAt, expect, takeDigits, hd1, hd2, a1, a2, a3, a4, b1, b2, b3, b4]
    omega
  | cons c cs ih =>
    simp only [List.mem_cons, not_or] at hn
    have hc : (c == '\n') = false := by simp [Ne.symm hn.1]
    simp only [List.cons_append, match2Aux, hc, Bool.false_eq_true, if_false]
    rw [ih hn.2]
    simp

/-- **print → parse, name-only form (partial)**: holds whenever the printed text is not taken for a
numeric identifier by pattern 1 -/
theorem parse_print_nameonly_partial (n : Str) (v : Nat) (hv : v ≤ 99) (hn : '\n' ∉ n)
    (hnot : match1 (n ++ suffixOf v) = none) :
    fromStr (toStr (mk none none none v (some n))) = .ok (mk none none none v (some n)) := by
  rw [printed_nameonly]
  simp only [fromStr, hnot, match2, match2_printed n v hv hn [] none, List.reverse_nil, List.nil_append]

/-- … and the full statement (without `hnot`) is false: printing is not injective.  A name that looks
like a numeric identifier prints to text that parses as one (known finding D7, inherent in the format) -/
theorem parse_print_nameonly_witness :
    fromStr (toStr (mk none none none 3 (some "00001-0002-0003-04 x".toList))) ≠
      .ok (mk none none none 3 (some "00001-0002-0003-04 x".toList)) := by decide

/-! ### decision logic -/

/-- unparsable text raises the configuration-identifier format error -/
theorem unparsable (s : Str) (h1 : match1 s = none) (h2 : match2 s = none) : fromStr s = .error .formatCfgId := by
  simp [fromStr, h1, h2]

/-- the identifier derived from project settings: decision table stated outright -/
theorem fromPrj_spec (d : ConfDict) :
    fromPrj d =
      match cfgGet d 0x620 0x07 with
      | none => .error .missingPrjName
      | some vb =>
        match nameOf d 0x06 with
        | .error e => .error e
        | .ok name =>
          match cfgGet d 0x620 0x01, cfgGet d 0x620 0x05 with
          | some c, some p => .ok (mk (some (fromBE c)) (some (fromBE p)) (some (fromBE ((cfgGet d 0x620 0x02).getD [0, 0])))
              (fromBE vb) name)
          | _, _ => if truthy name then .ok (mk none none none (fromBE vb) name) else .error .missingPrjName := by
  unfold fromPrj
  cases cfgGet d 0x620 0x07 with
  | none => rfl
  | some vb =>
    simp only [bind, Except.bind]
    cases nameOf d 0x06 with
    | error e => rfl
    | ok name =>
      simp only []
      cases cfgGet d 0x620 0x01 <;> cases cfgGet d 0x620 0x05 <;> simp [pure, Except.pure, throw, throwThe, MonadExceptOf.throw] <;>
        split <;> rfl

theorem fromDev_spec (d : ConfDict) :
    fromDev d =
      match cfgGet d 0x620 0x04 with
      | none => .error .missingDevName
      | some vb =>
        match nameOf d 0x03 with
        | .error e => .error e
        | .ok name =>
          match cfgGet d 0x620 0x01 with
          | some c => .ok (mk (some (fromBE c)) (some 0) (some (fromBE ((cfgGet d 0x620 0x02).getD [0, 0]))) (fromBE vb) name)
          | none => if truthy name then .ok (mk none (some 0) none (fromBE vb) name) else .error .missingDevName := by
  unfold fromDev
  cases cfgGet d 0x620 0x04 with
  | none => rfl
  | some vb =>
    simp only [bind, Except.bind]
    cases nameOf d 0x03 with
    | error e => rfl
    | ok name =>
      simp only []
      cases cfgGet d 0x620 0x01 <;> simp [pure, Except.pure, throw, throwThe, MonadExceptOf.throw] <;> split <;> rfl

theorem consts_pinned : Gen.UNKNOWN = 9999 := by decide

/-- non-vacuity (tests): the appnote identifier, an edge identifier, a name containing "(version NN)" -/
example : toStr (mk (some 10234) (some 5678) (some 6789) 9 (some "Testname".toList)) = "10234-5678-6789-09 Testname".toList := by decide
example : NameOK (some "Lobby (version 01)".toList) := ⟨by decide, by decide⟩
example : match1 ("Lobby (version 01)".toList ++ suffixOf 5) = none := by decide

end Bec2Verif.Props.C12
