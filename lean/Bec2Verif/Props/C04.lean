import Bec2Verif.Lemmas.Damage
import Bec2Verif.Lemmas.Writer
import Bec2Verif.Props.C05
import Bec2Verif.Props.C16
import Bec2Verif.Lemmas.MacInj
/-!
# C04 — damaged or truncated files are never silently accepted as different content

Proved here (no cryptographic assumption, any plug-in, any key, MAC check on or off):
every proper prefix (every crash point of the writer's binary output stream) and every extension of
an authentic container is rejected — the well-formed encoding is prefix-free — and a container read
under *any* key/plug-in is either rejected or has exactly the original bytes' fields.
Single-byte damage: a change of the stored MAC is always detected; a change inside a MAC'd span is detected unless the MAC
collides (`*_rejected_or_collision`, any plug-in) — and the CBC-MAC of the bundled AES plug-in cannot collide on a message and
its copy with one byte replaced (`mac_one_byte_replaced`, from `aes_blockInv`), so for that plug-in such damage is always
detected (`payload_byte_damage_rejected`, `entry_byte_damage_rejected`): no cryptographic assumption is left for single-byte
damage inside a payload or a directory entry.
-/
namespace Bec2Verif.Props.C04
open Bec2Verif Bec2Verif.Bf3 Bec2Verif.Spec.Layout

/-- every proper prefix of a well-formed body is rejected (with or without MAC checking, under any key) -/
theorem truncation_rejected (C C' : Crypto) (chk chk' : Bool) (key key' : Bytes) (pos pos' : Nat) (b : Bytes)
    (es : List RawEntry) (hwf : WellFormed C chk key pos b es) (n : Nat) (hn : n < b.length) :
    ∃ e, fromBinary C' chk' key' pos' (b.take n) = .error e := by
  cases hr : fromBinary C' chk' key' pos' (b.take n) with
  | error e => exact ⟨e, rfl⟩
  | ok comps =>
    exfalso
    obtain ⟨es', hwf', _⟩ := fromBinary_sound C' chk' key' pos' _ comps hr
    have := wf_prefix_eq C' C chk' chk key' key pos' pos (b.take n) b es' es hwf' hwf
      ⟨b.drop n, List.take_append_drop n b⟩
    have hl := congrArg List.length this
    simp only [List.length_take] at hl
    omega

/-- every extension of a well-formed body by at least one byte is rejected -/
theorem extension_rejected (C C' : Crypto) (chk chk' : Bool) (key key' : Bytes) (pos pos' : Nat) (b : Bytes)
    (es : List RawEntry) (hwf : WellFormed C chk key pos b es) (s : Bytes) (hs : s ≠ []) :
    ∃ e, fromBinary C' chk' key' pos' (b ++ s) = .error e := by
  cases hr : fromBinary C' chk' key' pos' (b ++ s) with
  | error e => exact ⟨e, rfl⟩
  | ok comps =>
    exfalso
    obtain ⟨es', hwf', _⟩ := fromBinary_sound C' chk' key' pos' _ comps hr
    have := wf_prefix_eq C C' chk chk' key key' pos pos' b (b ++ s) es es' hwf hwf' ⟨s, rfl⟩
    have hl := congrArg List.length this
    simp only [List.length_append] at hl
    have : s.length = 0 := by omega
    exact hs (List.length_eq_zero_iff.mp this)

/-- the same for what the writer produced (via C03: the writer's output is well-formed) -/
theorem written_truncation_rejected (C : Crypto) (hm : MacLen C) (key : Bytes) (comps : List Comp) (off : Nat)
    (b : Bytes) (hok : ∀ c ∈ comps, CompOK C key c) (h : toBinary C comps off key = .ok b)
    (chk' : Bool) (key' : Bytes) (n : Nat) (hn : n < b.length) :
    ∃ e, fromBinary C chk' key' off (b.take n) = .error e := by
  obtain ⟨res, hwf, _⟩ := Bec2Verif.Bf3.toBinary_wellformed C hm key comps off b hok h
  exact truncation_rejected C C true chk' key key' off off b res hwf n hn

theorem written_extension_rejected (C : Crypto) (hm : MacLen C) (key : Bytes) (comps : List Comp) (off : Nat)
    (b : Bytes) (hok : ∀ c ∈ comps, CompOK C key c) (h : toBinary C comps off key = .ok b)
    (chk' : Bool) (key' : Bytes) (s : Bytes) (hs : s ≠ []) :
    ∃ e, fromBinary C chk' key' off (b ++ s) = .error e := by
  obtain ⟨res, hwf, _⟩ := Bec2Verif.Bf3.toBinary_wellformed C hm key comps off b hok h
  exact extension_rejected C C true chk' key key' off off b res hwf s hs

/-- whole BF3 binary (signature included): every proper prefix is rejected -/
theorem readBinary_truncation_rejected (C : Crypto) (chk chk' : Bool) (key key' : Bytes) (bin : Bytes) (comps : List Comp)
    (h : readBinary C chk key bin = .ok comps) (n : Nat) (hn : n < bin.length) :
    ∃ e, readBinary C chk' key' (bin.take n) = .error e := by
  obtain ⟨body, es, rfl, hwf, _⟩ := (Props.C05.readBinary_ok_iff C chk key bin comps).mp h
  cases hr : readBinary C chk' key' ((Gen.BF3_FILE_SIG ++ body).take n) with
  | error e => exact ⟨e, rfl⟩
  | ok comps' =>
    exfalso
    obtain ⟨body', es', heq, hwf', _⟩ := (Props.C05.readBinary_ok_iff C chk' key' _ comps').mp hr
    -- body' is a prefix of body
    have hpre : ∃ t, body' ++ t = body := by
      have h1 : Gen.BF3_FILE_SIG ++ body' ++ (Gen.BF3_FILE_SIG ++ body).drop n = Gen.BF3_FILE_SIG ++ body := by
        rw [← heq]; exact List.take_append_drop n _
      rw [List.append_assoc] at h1
      exact ⟨_, List.append_cancel_left h1⟩
    have := wf_prefix_eq C C chk' chk key' key _ _ body' body es' es hwf' hwf hpre
    subst this
    have hl := congrArg List.length heq
    simp only [List.length_take] at hl
    omega

/-- a change to the stored entry MAC alone is always detected (no assumption on the MAC function):
the directory entry no longer passes the reader's per-entry check -/
theorem emac_damage_rejected (C : Crypto) (key : Bytes) (i adr : Nat) (re : RawEntry)
    (hwf : EntryWF C true key i adr re) (em' : Bytes) (hne : em' ≠ re.emac) (hlen : em'.length = re.emac.length) :
    ∀ ent, parseEntry C true key (1 + i) (entryBody re ++ em') ≠ .ok (ent, []) := by
  intro ent h
  obtain ⟨em, he, hfacts⟩ := parseEntry_sound C true key (1 + i) _ ent h
  have hmac := hfacts.emacOk rfl
  -- both decompositions of the entry bytes agree: body = entBody, em' = em
  have hsplit : entryBody re ++ em' = entBody (ent, em) ++ em := he
  have hl1 : em'.length = em.length := by rw [hlen, hwf.emacLen, hfacts.emacLen]
  have hbl : (entryBody re).length = (entBody (ent, em)).length := by
    have := congrArg List.length hsplit
    simp only [List.length_append] at this
    omega
  obtain ⟨hb, hem⟩ := List.append_inj hsplit hbl
  have horig := hwf.emacOk rfl
  rw [← hb, horig] at hmac
  injection hmac with hmac
  exact hne (by rw [hem, hmac])

/-- a change inside the MAC'd span of an entry (same length) is detected unless the MAC collides -/
theorem body_damage_rejected_or_collision (C : Crypto) (key : Bytes) (i adr : Nat) (re : RawEntry)
    (hwf : EntryWF C true key i adr re) (body' : Bytes) (hlen : body'.length = (entryBody re).length)
    (ent : Entry) (h : parseEntry C true key (1 + i) (body' ++ re.emac) = .ok (ent, [])) :
    C.mac key (some (toBE Gen.CMAC_SIZE (1 + i))) body' = C.mac key (some (toBE Gen.CMAC_SIZE (1 + i))) (entryBody re) := by
  obtain ⟨em, he, hfacts⟩ := parseEntry_sound C true key (1 + i) _ ent h
  have hmac := hfacts.emacOk rfl
  have hsplit : body' ++ re.emac = entBody (ent, em) ++ em := he
  have hbl : body'.length = (entBody (ent, em)).length := by
    have := congrArg List.length hsplit
    simp only [List.length_append, hwf.emacLen, hfacts.emacLen] at this
    omega
  obtain ⟨hb, hem⟩ := List.append_inj hsplit hbl
  rw [← hb, ← hem] at hmac
  rw [hmac, hwf.emacOk rfl]

/-- a change inside a payload (same length) is detected unless the payload MAC collides -/
theorem payload_damage_rejected_or_collision (C : Crypto) (key : Bytes) (pos : Nat) (ent : Entry) (em : Bytes)
    (l : List EntM) (p' rest : Bytes) (comps : List Comp) (r : Bytes)
    (h : readComps C true key ((ent, em) :: l |>.map Prod.fst) pos (p' ++ rest) = .ok (comps, r))
    (hlen : p'.length = ent.total) : C.mac key none p' = .ok ent.pmac := by
  obtain ⟨res, hres, hbs, hfacts, _⟩ := readComps_sound C true key ((ent, em) :: l) pos (p' ++ rest) comps r h
  cases res with
  | nil => simp at hres
  | cons re rs =>
    simp only [List.map_cons, List.cons.injEq] at hres
    obtain ⟨hre, _⟩ := hres
    obtain ⟨_, hm, _⟩ := hfacts
    have hpl : re.payload.length = ent.total := by
      have := congrArg (fun (x : EntM) => x.1.total) hre
      simpa [toEntM] using this
    have hpm : re.pmac = ent.pmac := by
      have := congrArg (fun (x : EntM) => x.1.pmac) hre
      simpa [toEntM] using this
    simp only [payloads, List.append_assoc] at hbs
    obtain ⟨hp, _⟩ := List.append_inj hbs (by omega)
    rw [hp, ← hpm]
    exact hm rfl

/-- **the CBC-MAC of the registered plug-in separates a message from its copy with one byte replaced**: every key, IV,
length and position; for the bundled AES outright (`aes_blockInv`: AES decryption inverts AES encryption, C16) -/
theorem mac_one_byte_replaced (key : Bytes) (iv : Option Bytes) (x y : Bytes) (v v' : UInt8) (hne : v ≠ v') (m m' : Bytes)
    (h : aesCrypto.mac key iv (x ++ v :: y) = .ok m) (h' : aesCrypto.mac key iv (x ++ v' :: y) = .ok m') : m ≠ m' :=
  mac_one_byte aesCipher Props.C16.aes_blockInv key iv x y v v' hne m m' h h'

/-- **a replaced byte inside a payload is always detected** (bundled AES plug-in, MAC check on): if the directory entry
carries the MAC of the original payload `x ++ v :: y`, the reader does not accept `x ++ v' :: y` in its place -/
theorem payload_byte_damage_rejected (key : Bytes) (pos : Nat) (ent : Entry) (em : Bytes) (l : List EntM)
    (x y rest : Bytes) (v v' : UInt8) (hne : v ≠ v') (comps : List Comp) (r : Bytes)
    (horig : aesCrypto.mac key none (x ++ v :: y) = .ok ent.pmac) (hlen : (x ++ v' :: y).length = ent.total) :
    readComps aesCrypto true key ((ent, em) :: l |>.map Prod.fst) pos ((x ++ v' :: y) ++ rest) ≠ .ok (comps, r) := by
  intro h
  have := payload_damage_rejected_or_collision aesCrypto key pos ent em l (x ++ v' :: y) rest comps r h hlen
  exact mac_one_byte_replaced key none x y v v' hne _ _ horig this rfl

/-- **a replaced byte inside the MAC'd span of a directory entry is always detected** (bundled AES plug-in) -/
theorem entry_byte_damage_rejected (key : Bytes) (i adr : Nat) (re : RawEntry) (hwf : EntryWF aesCrypto true key i adr re)
    (x y : Bytes) (v v' : UInt8) (hne : v ≠ v') (hbody : entryBody re = x ++ v :: y) :
    ∀ ent, parseEntry aesCrypto true key (1 + i) ((x ++ v' :: y) ++ re.emac) ≠ .ok (ent, []) := by
  intro ent h
  have hcol := body_damage_rejected_or_collision aesCrypto key i adr re hwf (x ++ v' :: y) (by rw [hbody]; simp) ent h
  have horig := hwf.emacOk rfl
  rw [hbody] at hcol horig
  rw [horig] at hcol
  exact mac_one_byte_replaced key _ x y v v' hne _ _ horig hcol rfl

/-- non-vacuity (test): the 5-byte empty container is well-formed, its 4-byte prefix is rejected -/
example : ∃ e, fromBinary aesCrypto true (List.replicate 16 0) 5 (([0, 0, 0, 1, 0] : Bytes).take 4) = .error e :=
  truncation_rejected aesCrypto aesCrypto true true (List.replicate 16 0) (List.replicate 16 0) 5 5 [0, 0, 0, 1, 0] []
    ⟨by decide, by decide, trivial⟩ 4 (by decide)

end Bec2Verif.Props.C04
