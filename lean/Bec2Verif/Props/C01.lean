import Bec2Verif.Lemmas.Adapter
import Bec2Verif.Lemmas.TextEnvelope
import Bec2Verif.Model.Entry
/-!
# C01 — BF3 write-then-read returns the same file (binary container)

For *every* registered crypto `C` whose MAC has `CMAC_SIZE` bytes (in particular the
bundled AES adapter, `aes_macLen`), every session key, every list of plain components:
what `to_binary`/`write_file` wrote is read back unchanged by `from_binary`/`read_file`,
with MAC checking on or off.  Nothing cryptographic is needed: the reader recomputes the
same MAC function.  The text envelope (comment lines, blank line, 80-column hex lines; stream and path I/O) is
the second half of this file: `read_file ∘ write_file = id` for the whole file.
-/
namespace Bec2Verif.Props.C01
open Bec2Verif Bec2Verif.Bf3

/-- the property's quantifier: a plain component with distinct tag ids, declared length
1..payload length, not claiming session-key encryption in its tag list -/
structure PlainWF (c : Comp) : Prop where
  plain : c.enc = false
  nodup : TagsNodup c.desc
  lenPos : 1 ≤ c.actualLen
  lenLe : c.actualLen ≤ c.blob.length
  notEncTag : c.desc.lookup Gen.BF3TAG_ENC ≠ some sessionKeyEnc

theorem readBack_plain (C : Crypto) (key : Bytes) (c : Comp) (h : PlainWF c) :
    getRawData C key c = .ok c.blob ∧ readBack C key c c.blob = .ok c := by
  have h1 : getRawData C key c = .ok c.blob := by simp [getRawData, h.plain]
  refine ⟨h1, ?_⟩
  have hne : (c.desc.lookup Gen.BF3TAG_ENC == some sessionKeyEnc) = false := by
    simpa using h.notEncTag
  simp only [readBack, hne, Bool.false_eq_true, if_false, pure, Except.pure, mkComp]
  have hp := h.lenPos
  cases c with
  | mk desc blob actualLen enc =>
    simp only at hp h1 ⊢
    have : enc = false := h.plain
    subst this
    match actualLen, hp with
    | n+1, _ => rfl

theorem readBackAll_plain (C : Crypto) (key : Bytes) (comps : List Comp) (h : ∀ c ∈ comps, PlainWF c) :
    readBackAll C key comps = .ok comps := by
  induction comps with
  | nil => rfl
  | cons c cs ih =>
    obtain ⟨h1, h2⟩ := readBack_plain C key c (h c (by simp))
    simp [readBackAll, h1, h2, ih (fun c' hc' => h c' (by simp [hc'])), bind, Except.bind, pure, Except.pure]

theorem plain_compOK (C : Crypto) (key : Bytes) (c : Comp) (h : PlainWF c) : CompOK C key c := by
  refine ⟨h.nodup, ?_⟩
  intro raw hraw
  rw [(readBack_plain C key c h).1] at hraw
  injection hraw with hraw
  subst hraw
  exact h.lenLe

/-- `from_binary ∘ to_binary = id` on plain components, any offset, any key, MAC check on or off -/
theorem fromBinary_toBinary (C : Crypto) (hm : MacLen C) (chk : Bool) (key : Bytes)
    (comps : List Comp) (off : Nat) (b : Bytes)
    (hwf : ∀ c ∈ comps, PlainWF c) (h : toBinary C comps off key = .ok b) :
    fromBinary C chk key off b = .ok comps := by
  rw [fromBinary_toBinary_general C hm chk key comps off b (fun c hc => plain_compOK C key c (hwf c hc)) h]
  exact readBackAll_plain C key comps hwf

/-- `read_file ∘ write_file = id` at the level of the binary (signature included) -/
theorem readBinary_writeBinary (C : Crypto) (hm : MacLen C) (chk : Bool) (key : Bytes)
    (comps : List Comp) (b : Bytes)
    (hwf : ∀ c ∈ comps, PlainWF c) (h : writeBinary C comps key = .ok b) :
    readBinary C chk key b = .ok comps := by
  simp only [writeBinary, Except.bind_eq_ok] at h
  obtain ⟨body, hbody, hp⟩ := h
  simp only [pure, Except.pure, Except.ok.injEq] at hp
  subst hp
  unfold readBinary
  rw [take_append]
  simp only [bind, Except.bind, bne_self_eq_false, Bool.false_eq_true, if_false]
  exact fromBinary_toBinary C hm chk key comps _ body hwf hbody

/-- instance for the bundled AES adapter: no hypothesis left -/
theorem readBinary_writeBinary_aes (chk : Bool) (key : Bytes) (comps : List Comp) (b : Bytes)
    (hwf : ∀ c ∈ comps, PlainWF c) (h : writeBinary aesCrypto comps key = .ok b) :
    readBinary aesCrypto chk key b = .ok comps :=
  readBinary_writeBinary aesCrypto aes_macLen chk key comps b hwf h

/-! ### the text envelope -/

open Bec2Verif.Text in
/-- `parse_bf3_file ∘ write_bf3_format = id` through a stream: every binary (all lengths, multiples of 40 included - the
writer then emits one empty line, which the reader ignores), comments with keys free of `:` and newline, values free
of newline and of leading / trailing whitespace (the reader strips them), distinct keys -/
theorem text_roundtrip (cs : List (Str × Str)) (raw : Bytes) (hwf : CommentsWF cs) :
    parseText (writeText cs raw) = .ok (cs, raw) := parseText_writeText cs raw hwf

open Bec2Verif.Text in
/-- through a path: the writer's `newline="\r\n"` translation followed by the reader's universal newlines is the
identity on text without carriage returns -/
theorem path_newlines (s : Str) (h : '\r' ∉ s) : universalNewlines (toCRLF s) = s := universal_toCRLF s h

open Bec2Verif.Text in
/-- **`Bf3File.read_file ∘ write_file = id`**: comments and components come back unchanged, for every crypto plug-in
with a 16-byte MAC, every session key, MAC check on or off -/
theorem readFile_writeFile (C : Crypto) (hm : MacLen C) (chk : Bool) (key : Bytes) (cs : List (Str × Str))
    (comps : List Comp) (b : Bytes) (hcs : CommentsWF cs) (hwf : ∀ c ∈ comps, PlainWF c)
    (h : writeBinary C comps key = .ok b) :
    Entry.readBf3 C chk key (writeText cs b) = .ok (cs, comps) := by
  unfold Entry.readBf3
  rw [parseText_writeText cs b hcs]
  simp only [bind, Except.bind]
  rw [readBinary_writeBinary C hm chk key comps b hwf h]

open Bec2Verif.Text in
/-- the same through a path (CRLF on disk) when the text has no carriage return of its own -/
theorem readFile_writeFile_path (C : Crypto) (hm : MacLen C) (chk : Bool) (key : Bytes) (cs : List (Str × Str))
    (comps : List Comp) (b : Bytes) (hcs : CommentsWF cs) (hwf : ∀ c ∈ comps, PlainWF c)
    (hcr : '\r' ∉ writeText cs b) (h : writeBinary C comps key = .ok b) :
    Entry.readBf3 C chk key (universalNewlines (toCRLF (writeText cs b))) = .ok (cs, comps) := by
  rw [universal_toCRLF _ hcr]
  exact readFile_writeFile C hm chk key cs comps b hcs hwf h

/-- non-vacuity of `CommentsWF` -/
example : Text.CommentsWF [("Creator".toList, "tool 1.0".toList), ("X".toList, [])] := by
  refine ⟨?_, ?_, by decide⟩
  · intro kv hkv
    simp only [List.mem_cons, List.not_mem_nil, or_false] at hkv
    rcases hkv with rfl | rfl <;> decide
  · intro kv hkv
    simp only [List.mem_cons, List.not_mem_nil, or_false] at hkv
    rcases hkv with rfl | rfl
    · refine ⟨by decide, ?_, ?_⟩ <;> intro c hc <;> simp at hc <;> subst hc <;> decide
    · refine ⟨by decide, ?_, ?_⟩ <;> intro c hc <;> simp at hc

/-- pinned documented constants (regenerated from the source on every run) -/
theorem consts_pinned :
    Gen.BF3_FILE_SIG = [0x42, 0x46, 0x33, 0, 0] ∧ Gen.CMAC_SIZE = 16 ∧ Gen.KEY_SIZE = 16 ∧
    Gen.DEFAULT_SESSION_KEY = List.replicate 16 0 ∧ Gen.END_OF_LINE = 80 := by decide

/-- non-vacuity: a two-component file with a payload ending in zeros meets the hypotheses -/
def sample : List Comp :=
  [ { desc := [(0xC1, [0x11, 0x22]), (0xC3, [])], blob := [1, 2, 3, 0, 0], actualLen := 4, enc := false },
    { desc := [], blob := List.replicate 32 0, actualLen := 32, enc := false } ]

example : ∀ c ∈ sample, PlainWF c := by
  intro c hc
  simp only [sample, List.mem_cons, List.mem_nil_iff, or_false] at hc
  rcases hc with rfl | rfl <;> exact ⟨rfl, by unfold TagsNodup; decide, by decide, by decide, by decide⟩

end Bec2Verif.Props.C01
