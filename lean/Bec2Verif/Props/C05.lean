import Bec2Verif.Lemmas.Reader
/-!
# C05 — the reader accepts a binary exactly when it is well-formed and authentic

`Spec.Layout.WellFormed` is the declarative statement of the property: every length field equals the
bytes present (the body *is* `bodyBytes es`), payload addresses are absolute and contiguous, no tag
repeats, declared ≤ stored, both MACs of every entry verify under the key with IV = 1-based index,
the directory ends with its sentinel and nothing follows the last payload.
-/
namespace Bec2Verif.Props.C05
open Bec2Verif Bec2Verif.Bf3 Bec2Verif.Spec.Layout

/-- container body at absolute offset `pos` (BF3: 5; BEC2: header length) -/
theorem fromBinary_ok_iff (C : Crypto) (chk : Bool) (key : Bytes) (pos : Nat) (bin : Bytes) (comps : List Comp) :
    fromBinary C chk key pos bin = .ok comps ↔
      ∃ es, WellFormed C chk key pos bin es ∧ compsOf C key es = .ok comps :=
  Bec2Verif.Bf3.fromBinary_ok_iff C chk key pos bin comps

/-- whole BF3 binary: signature intact, then a well-formed authentic body -/
theorem readBinary_ok_iff (C : Crypto) (chk : Bool) (key : Bytes) (bin : Bytes) (comps : List Comp) :
    readBinary C chk key bin = .ok comps ↔
      ∃ body es, bin = Gen.BF3_FILE_SIG ++ body ∧ WellFormed C chk key Gen.BF3_FILE_SIG.length body es ∧
        compsOf C key es = .ok comps := by
  constructor
  · intro h
    simp only [readBinary, Except.bind_eq_ok] at h
    obtain ⟨⟨sig, r⟩, ht, h2⟩ := h
    obtain ⟨rfl, hl⟩ := take_ok ht
    by_cases hs : (sig != Gen.BF3_FILE_SIG) = true
    · simp [hs, throw, throwThe, MonadExceptOf.throw, bind, Except.bind] at h2
    · have : sig = Gen.BF3_FILE_SIG := by simpa using hs
      subst this
      simp only [hs, Bool.false_eq_true, if_false, pure, Except.pure, bind, Except.bind] at h2
      obtain ⟨es, hwf, hc⟩ := (fromBinary_ok_iff C chk key _ r comps).mp h2
      exact ⟨r, es, rfl, hwf, hc⟩
  · rintro ⟨body, es, rfl, hwf, hc⟩
    unfold readBinary
    rw [take_append]
    simp only [bind, Except.bind, bne_self_eq_false, Bool.false_eq_true, if_false, pure, Except.pure]
    exact (fromBinary_ok_iff C chk key _ body comps).mpr ⟨es, hwf, hc⟩

/-- accepted input re-serialises to itself: the bytes are determined by the fields -/
theorem accepted_is_canonical (C : Crypto) (chk : Bool) (key : Bytes) (pos : Nat) (bin : Bytes) (comps : List Comp)
    (h : fromBinary C chk key pos bin = .ok comps) : ∃ es, bin = bodyBytes es :=
  let ⟨es, hwf, _⟩ := (fromBinary_ok_iff C chk key pos bin comps).mp h
  ⟨es, hwf.1⟩

/-- anything that is not well-formed and authentic is rejected -/
theorem not_wellformed_rejected (C : Crypto) (chk : Bool) (key : Bytes) (pos : Nat) (bin : Bytes)
    (h : ¬ ∃ es, WellFormed C chk key pos bin es) : ∃ e, fromBinary C chk key pos bin = .error e := by
  cases hr : fromBinary C chk key pos bin with
  | error e => exact ⟨e, rfl⟩
  | ok comps =>
    exfalso
    obtain ⟨es, hwf, _⟩ := (fromBinary_ok_iff C chk key pos bin comps).mp hr
    exact h ⟨es, hwf⟩

theorem consts_pinned : Gen.BF3_FILE_SIG = [0x42, 0x46, 0x33, 0, 0] ∧ Gen.CMAC_SIZE = 16 ∧
    Gen.BF3TAG_ENC = 0xC2 ∧ Gen.BF3ENC_SESSIONKEY = 2 := by decide

/-- non-vacuity: the empty container `00 00 00 01 00` is well-formed with no entries -/
example (C : Crypto) (key : Bytes) : WellFormed C true key 5 [0, 0, 0, 1, 0] [] := by
  refine ⟨by decide, by decide, trivial⟩

end Bec2Verif.Props.C05
