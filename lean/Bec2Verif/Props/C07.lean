import Bec2Verif.Lemmas.Bec2
import Bec2Verif.Props.C03
/-!
# C07 — one fresh session key per file, wrapped identically by every auth block
-/
namespace Bec2Verif.Props.C07
open Bec2Verif Bec2Verif.Bf3 Bec2Verif.Bec2

/-- every block of a written header that the decryptors can open unwraps to the file's session key
(the pack loop hands every block `self.session_key`) -/
theorem every_block_wraps_session_key (env : Env) (hC : CryptoInv env.C) (hE : EccLaws env.E) (blk : AuthBlock)
    (sk : Bytes) (ext : List Encryptor) (ephs ephs' : List Nat) (raw : Bytes) (hsk : sk.length = 16)
    (hopen : Opens ext blk) (h : packBlock env blk sk ext ephs = .ok (raw, ephs')) :
    ∃ blk', unpackBlock env blk.tag raw ext = .ok (blk', sk) :=
  ⟨blk, unpack_pack_block env hC hE blk sk ext ephs ephs' raw hsk hopen h⟩

/-- the key handed to the blocks is the key that authenticates the directory and encrypts components -/
theorem key_authenticates_body (env : Env) (f : File) (ext : List Encryptor) (ephs ephs' : List Nat) (out : Bytes)
    (h : Bec2.toBinary env f ext ephs = .ok (out, ephs')) :
    ∃ packed body, packBlocks env f.key ext f.blocks ephs = .ok (packed, ephs') ∧
      Bf3.toBinary env.C f.comps (Gen.BEC2_FILE_SIG ++ packed).length f.key = .ok body ∧
      out = Gen.BEC2_FILE_SIG ++ packed ++ body :=
  Props.C03.bec2_header_layout env f ext ephs out ephs' h

/-- one step of the header reader on a block it can open -/
theorem unpack_step_known (env : Env) (ext : List Encryptor) (f : Nat) (t : Nat) (raw rest : Bytes)
    (acc : List AuthBlock) (common : Option Bytes) (used : Nat) (b : AuthBlock) (k : Bytes)
    (ht : t < 256) (hl : raw.length < 256) (ht0 : t ≠ 0) (hknown : Gen.AUTH_BLOCK_TAGS.contains t = true)
    (hun : unpackBlock env t raw ext = .ok (b, k)) :
    unpackBlocks env ext (f + 1) (toBE 1 t ++ toBE 1 raw.length ++ raw ++ rest) acc common used =
      match common with
      | some c => if k != c then .error .formatBec2
                  else unpackBlocks env ext f rest (acc ++ [b]) (some k) (used + 2 + raw.length)
      | none => unpackBlocks env ext f rest (acc ++ [b]) (some k) (used + 2 + raw.length) := by
  have hnot : ¬ (t = 0 ∧ raw.length = 0) := fun h => ht0 h.1
  simp only [unpackBlocks, List.append_assoc]
  rw [readInt1 t _ ht]
  simp only [bind, Except.bind]
  rw [readInt1 raw.length _ hl]
  simp only [take_append, hnot, if_false, hknown, if_true, hun]
  cases common <;> rfl

/-- one step on a block no supplied decryptor opens (unknown tag, or `KeyError` from the block class) -/
theorem unpack_step_unknown (env : Env) (ext : List Encryptor) (f : Nat) (t : Nat) (raw rest : Bytes)
    (acc : List AuthBlock) (common : Option Bytes) (used : Nat)
    (ht : t < 256) (hl : raw.length < 256) (hnz : ¬ (t = 0 ∧ raw.length = 0))
    (hun : (if Gen.AUTH_BLOCK_TAGS.contains t then unpackBlock env t raw ext else .error .keyError) = .error .keyError) :
    unpackBlocks env ext (f + 1) (toBE 1 t ++ toBE 1 raw.length ++ raw ++ rest) acc common used =
      unpackBlocks env ext f rest (acc ++ [.unknown t raw]) common (used + 2 + raw.length) := by
  simp only [unpackBlocks, List.append_assoc]
  rw [readInt1 t _ ht]
  simp only [bind, Except.bind]
  rw [readInt1 raw.length _ hl]
  simp only [take_append, hnz, if_false, hun]

/-- a header whose first two openable blocks unwrap to different keys is rejected with the format error -/
theorem mixed_keys_rejected (env : Env) (ext : List Encryptor) (f : Nat) (t1 t2 : Nat) (raw1 raw2 rest : Bytes)
    (b1 b2 : AuthBlock) (k1 k2 : Bytes)
    (h1 : t1 < 256 ∧ raw1.length < 256 ∧ t1 ≠ 0 ∧ Gen.AUTH_BLOCK_TAGS.contains t1 = true)
    (h2 : t2 < 256 ∧ raw2.length < 256 ∧ t2 ≠ 0 ∧ Gen.AUTH_BLOCK_TAGS.contains t2 = true)
    (hu1 : unpackBlock env t1 raw1 ext = .ok (b1, k1)) (hu2 : unpackBlock env t2 raw2 ext = .ok (b2, k2))
    (hne : k1 ≠ k2) :
    unpackBlocks env ext (f + 2)
      (toBE 1 t1 ++ toBE 1 raw1.length ++ raw1 ++ (toBE 1 t2 ++ toBE 1 raw2.length ++ raw2 ++ rest)) [] none 0 =
      .error .formatBec2 := by
  rw [unpack_step_known env ext (f + 1) t1 raw1 _ [] none 0 b1 k1 h1.1 h1.2.1 h1.2.2.1 h1.2.2.2 hu1]
  simp only []
  rw [unpack_step_known env ext f t2 raw2 rest _ (some k1) _ b2 k2 h2.1 h2.2.1 h2.2.2.1 h2.2.2.2 hu2]
  have : (k2 != k1) = true := by simp [bne_iff_ne, Ne.symm hne]
  simp [this]

/-- a block that was kept as `UnknownAuthBlock` is written back byte for byte, consuming no randomness -/
theorem unknown_block_preserved (env : Env) (t : Nat) (raw sk : Bytes) (ext : List Encryptor) (ephs : List Nat) :
    packBlock env (.unknown t raw) sk ext ephs = .ok (raw, ephs) := rfl

theorem unknown_block_tlv_preserved (env : Env) (t : Nat) (raw sk : Bytes) (ext : List Encryptor)
    (bs : List AuthBlock) (ephs ephs' : List Nat) (out : Bytes) (ht : t < 256)
    (h : packBlocks env sk ext (.unknown t raw :: bs) ephs = .ok (out, ephs')) :
    ∃ rest, out = toBE 1 t ++ toBE 1 raw.length ++ raw ++ rest ∧ packBlocks env sk ext bs ephs = .ok (rest, ephs') := by
  simp only [packBlocks, packBlock, AuthBlock.tag, Except.bind_eq_ok, pure, Except.pure, Except.ok.injEq,
    exists_eq_left'] at h
  obtain ⟨tb, htb, lb, hlb, ⟨rest, e2⟩, hrest, hp⟩ := h
  simp only [Except.ok.injEq, Prod.mk.injEq] at hp
  obtain ⟨rfl, rfl⟩ := hp
  obtain ⟨rfl, _⟩ := toBytesBE_ok htb
  obtain ⟨rfl, _⟩ := toBytesBE_ok hlb
  exact ⟨rest, by simp [List.append_assoc], hrest⟩

/-! ### use of randomness -/

/-- without a supplied key the constructor draws exactly 16 bytes from the random stream -/
theorem fresh_key_draws (ρ : Bytes) : initKey none ρ = (ρ.take 16, ρ.drop 16) ∧ initKey (some []) ρ = (ρ.take 16, ρ.drop 16) :=
  ⟨rfl, rfl⟩

theorem supplied_key_draws_nothing (k ρ : Bytes) (h : k ≠ []) : initKey (some k) ρ = (k, ρ) := by
  cases k with
  | nil => exact absurd rfl h
  | cons _ _ => rfl

/-- `n` constructions take `n` disjoint consecutive 16-byte segments of the stream: keys are never
cached, reused or derived from each other -/
theorem successive_keys_disjoint (n : Nat) (ρ : Bytes) :
    (drawKeys n ρ).1 = (List.range n).map (fun i => (ρ.drop (16 * i)).take 16) ∧ (drawKeys n ρ).2 = ρ.drop (16 * n) := by
  induction n generalizing ρ with
  | zero => simp [drawKeys]
  | succ n ih =>
    obtain ⟨h1, h2⟩ := ih (ρ.drop 16)
    have hd : ∀ i, (ρ.drop 16).drop (16 * i) = ρ.drop (16 * (i + 1)) := by
      intro i; rw [List.drop_drop]; congr 1; omega
    constructor
    · show ρ.take 16 :: (drawKeys n (ρ.drop 16)).1 = _
      rw [h1, List.range_succ_eq_map, List.map_cons, List.map_map]
      simp only [Nat.mul_zero, List.drop_zero, List.cons.injEq, true_and]
      apply List.map_congr_left
      intro i _
      simp only [Function.comp, hd]
    · show (drawKeys n (ρ.drop 16)).2 = _
      rw [h2, hd]

/-- packing a block consumes one ephemeral key exactly when it is an ECC block; nothing otherwise -/
theorem ephemeral_per_ecc_block (env : Env) (blk : AuthBlock) (sk : Bytes) (ext : List Encryptor) (ephs ephs' : List Nat)
    (raw : Bytes)
    (h : packBlock env blk sk ext ephs = .ok (raw, ephs')) :
    match blk with
    | .initEcc _ => ∃ d, ephs = d :: ephs'
    | _ => ephs' = ephs := by
  have hsel : ∀ (k : Kind) (fb : Option Encryptor) (sel : Option Nat) (e : Encryptor),
      selectEncryptor k ext fb sel = .ok e → (isKind k e = true ∧ e ∈ ext) ∨ fb = some e := by
    intro k fb sel e hs
    unfold selectEncryptor at hs
    split at hs
    · rename_i e' hf
      injection hs with hs
      subst hs
      have := List.find?_some hf
      simp only [Bool.and_eq_true] at this
      exact Or.inl ⟨this.1, List.mem_of_find?_eq_some hf⟩
    · split at hs
      · injection hs with hs
        subst hs
        exact Or.inr rfl
      · cases hs
  cases blk with
  | unknown t r => simp only [packBlock, pure, Except.pure, Except.ok.injEq, Prod.mk.injEq] at h; exact h.2.symm
  | initCust =>
    simp only [packBlock, Except.bind_eq_ok] at h
    obtain ⟨e, hs, henc⟩ := h
    rcases hsel _ _ _ _ hs with ⟨hk, hmem⟩ | hfb
    · cases e with
      | custKey k ck pos =>
        simp only [encEncrypt, Except.bind_eq_ok, pure, Except.pure, Except.ok.injEq, Prod.mk.injEq] at henc
        obtain ⟨_, _, _, rfl⟩ := henc; rfl
      | eccPub s p => simp [isKind] at hk
      | eccPriv s p => simp [isKind] at hk
      | csc c => simp [isKind] at hk
    · cases hfb
  | update code ver =>
    simp only [packBlock, Except.bind_eq_ok] at h
    obtain ⟨e, hs, vb, _, henc⟩ := h
    have hcsc : ∃ c, e = .csc c := by
      rcases hsel _ _ _ _ hs with ⟨hk, _⟩ | hfb
      · cases e with
        | csc c => exact ⟨c, rfl⟩
        | custKey k ck pos => simp [isKind] at hk
        | eccPub s p => simp [isKind] at hk
        | eccPriv s p => simp [isKind] at hk
      · simp only [Option.some.injEq] at hfb; exact ⟨code, hfb.symm⟩
    obtain ⟨c, rfl⟩ := hcsc
    simp only [encEncrypt, Except.bind_eq_ok, pure, Except.pure, Except.ok.injEq, Prod.mk.injEq] at henc
    obtain ⟨_, _, _, rfl⟩ := henc; rfl
  | initEcc sel =>
    simp only [packBlock] at h
    cases hlk : Gen.DEFAULT_PUBLIC_KEYS.lookup sel with
    | none => simp [hlk, throw, throwThe, MonadExceptOf.throw, bind, Except.bind] at h
    | some der =>
    simp only [hlk, pure, Except.pure, bind, Except.bind] at h
    cases hs : selectEncryptor Kind.ecc ext (some (Encryptor.eccPub sel (List.drop 27 der))) (some sel) with
    | error err => simp [hs] at h
    | ok e =>
    simp only [hs] at h
    cases hsb : toBytesBE 1 sel with
    | error err => simp [hsb] at h
    | ok sb =>
    simp only [hsb] at h
    cases henc : encEncrypt env e sk ephs with
    | error err => simp [henc] at h
    | ok v =>
    obtain ⟨c, e1⟩ := v
    simp only [henc, Except.ok.injEq, Prod.mk.injEq] at h
    obtain ⟨_, rfl⟩ := h
    have hecc : (∃ s p, e = .eccPub s p) ∨ (∃ s p, e = .eccPriv s p) := by
      rcases hsel _ _ _ _ hs with ⟨hk, _⟩ | hfb'
      · cases e with
        | eccPub s p => exact Or.inl ⟨s, p, rfl⟩
        | eccPriv s p => exact Or.inr ⟨s, p, rfl⟩
        | custKey k ck pos => simp [isKind] at hk
        | csc c => simp [isKind] at hk
      · simp only [Option.some.injEq] at hfb'
        exact Or.inl ⟨_, _, hfb'.symm⟩
    rcases hecc with ⟨s, p, rfl⟩ | ⟨s, p, rfl⟩
    · cases ephs with
      | nil => simp [encEncrypt] at henc
      | cons d rest =>
        simp only [encEncrypt, Except.bind_eq_ok, pure, Except.pure, Except.ok.injEq, Prod.mk.injEq] at henc
        obtain ⟨_, _, _, rfl⟩ := henc
        exact ⟨d, rfl⟩
    · cases ephs with
      | nil => simp [encEncrypt] at henc
      | cons d rest =>
        simp only [encEncrypt, Except.bind_eq_ok, pure, Except.pure, Except.ok.injEq, Prod.mk.injEq] at henc
        obtain ⟨_, _, _, _, _, rfl⟩ := henc
        exact ⟨d, rfl⟩

end Bec2Verif.Props.C07
