import Bec2Verif.Lemmas.RwLockSafe
/-!
# C20 — the reader-writer lock is safe and live under every schedule

Model: `Model/RwLock.lean` (one step = one source line of `_rwlock.py` executed by one thread; the controlled
scheduler of the harness compares the complete transition graph of the real code with this model for up to
2 readers + 2 writers).  The theorems below are for ANY number of reader and writer threads and every interleaving:
they follow from an inductive invariant (`Lemmas/RwLock.lean`, `RwLockInv.lean`) that pins, for each of the five
mutexes and the two counters, exactly which line ranges hold them.

The shared curve objects of C20 (generator with its lazily built table, public point rescaled in place) are covered
by C17: `mul_correct` gives the same group element through the table and through the NAF path, `scale_rep`
(`Lemmas/EcMul.lean`) shows that rescaling keeps the represented element - so whichever of the two published values
a second thread observes, its result is the same; that the real code publishes each of them with a single assignment
is what the preemption harness checks.
-/
namespace Bec2Verif.C20
open Bec2Verif RwLock

/-- a writer never holds the lock together with any other holder -/
theorem writer_holds_alone (ts : List Role) (s : State) (hr : Reachable ts s) (i j : Nat)
    (hi : i < s.threads.length) (hj : j < s.threads.length) (hij : i ≠ j)
    (hw : s.threads[i] = ⟨.writer, writerCS⟩) (hc : inCS s.threads[j] = true) : False :=
  writer_exclusive ts s hr i j hi hj hij hw hc

/-- the lock never deadlocks -/
theorem never_deadlocks (ts : List Role) (s : State) (hr : Reachable ts s)
    (hnf : ∃ i, ∃ hi : i < s.threads.length, unfinished s.threads[i] = true) : ∃ i, (step s i).isSome = true :=
  no_deadlock ts s hr hnf

/-- the invariant behind both -/
theorem invariant (ts : List Role) (s : State) (hr : Reachable ts s) : Inv s := inv_reachable ts s hr

/-- several readers do hold the lock together: an explicit schedule of two readers ends with both in the
critical section -/
def runSchedule (s : State) : List Nat → Option State
  | [] => some s
  | i :: is => match step s i with | some s' => runSchedule s' is | none => none

theorem reachable_of_run (ts : List Role) (sched : List Nat) (s s' : State) (hs : Reachable ts s)
    (h : runSchedule s sched = some s') : Reachable ts s' := by
  induction sched generalizing s with
  | nil => simp [runSchedule] at h; exact h ▸ hs
  | cons i is ih =>
    simp only [runSchedule] at h
    split at h
    · rename_i s1 hs1
      exact ih s1 (Reachable.step i hs hs1) h
    · cases h

theorem readers_share :
    ∃ s, Reachable [.reader, .reader] s ∧ s.threads = [⟨.reader, readerCS⟩, ⟨.reader, readerCS⟩] := by
  refine ⟨_, reachable_of_run _ ([0,0,0,0,0,0,0,0,0,0] ++ [1,1,1,1,1,1,1,1,1]) _ _ Reachable.init rfl, ?_⟩
  decide

/-- … and a reader and a writer never do, nor two writers (instances of `writer_holds_alone`, spelled out) -/
theorem no_reader_with_writer (ts : List Role) (s : State) (hr : Reachable ts s) (i j : Nat)
    (hi : i < s.threads.length) (hj : j < s.threads.length)
    (hw : s.threads[i] = ⟨.writer, writerCS⟩) (hrd : s.threads[j] = ⟨.reader, readerCS⟩) : False := by
  have hij : i ≠ j := by
    intro h; subst h; rw [hw] at hrd; cases hrd
  exact writer_exclusive ts s hr i j hi hj hij hw (by rw [hrd]; decide)

end Bec2Verif.C20
