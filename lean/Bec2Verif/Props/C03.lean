import Bec2Verif.Lemmas.Writer
import Bec2Verif.Lemmas.Adapter
import Bec2Verif.Model.Bec2
import Bec2Verif.Model.Text
/-!
# C03 — written bytes have exactly the documented BF3/BEC2 container layout

`Spec/Layout.lean` defines the layout without looking at the writer (closed form).  The model of the
writer (two passes, running address) is proved to produce exactly those bytes, for every content,
header length and key.
-/
namespace Bec2Verif.Props.C03
open Bec2Verif Bec2Verif.Bf3 Bec2Verif.Spec.Layout

/-- body = be4(|directory|) ++ directory ++ payloads, for the prescribed entries -/
theorem toBinary_eq_layout (C : Crypto) (hm : MacLen C) (key : Bytes) (comps : List Comp) (off : Nat) (b : Bytes)
    (h : toBinary C comps off key = .ok b) :
    ∃ res, rawEntriesOf C key comps 0 (off + 4 + (dirBytes res).length) = .ok res ∧ b = bodyBytes res ∧
      WriterWF C key 0 (off + 4 + (dirBytes res).length) res ∧ Matches C key res comps :=
  let ⟨res, h1, h2, _, h4, h5⟩ := toBinary_layout C hm key comps off b h
  ⟨res, h1, h2, h4, h5⟩

/-- the first four bytes are the real size of the directory that follows -/
theorem dirSize_field (res : List RawEntry) :
    (bodyBytes res).take 4 = toBE 4 (dirBytes res).length ∧
    ((bodyBytes res).drop 4).take (dirBytes res).length = dirBytes res := by
  constructor
  · simp only [bodyBytes, List.append_assoc]
    exact List.take_left' (by simp)
  · simp only [bodyBytes, List.append_assoc]
    rw [List.drop_left' (by simp)]
    exact List.take_left' rfl

/-- entry `k` holds the absolute file offset of its payload: start + Σ stored lengths before it -/
theorem adr_absolute (C : Crypto) (key : Bytes) (ndx adr : Nat) (res : List RawEntry) (h : WriterWF C key ndx adr res)
    (k : Nat) (hk : k < res.length) :
    res[k].adr = adr + ((res.take k).map (fun re => re.payload.length)).sum := by
  induction res generalizing ndx adr k with
  | nil => simp at hk
  | cons re rs ih =>
    obtain ⟨_, _, hadr, _, _, hrest⟩ := h
    cases k with
    | zero => simpa using hadr
    | succ k =>
      have := ih _ _ hrest k (by simpa using hk)
      simp only [List.getElem_cons_succ, List.take_succ_cons, List.map_cons, List.sum_cons]
      rw [this]; omega

/-- the MAC of entry `k` is chained from the 1-based entry index, the payload MAC from no IV -/
theorem entryMac_iv (C : Crypto) (key : Bytes) (ndx adr : Nat) (res : List RawEntry) (h : WriterWF C key ndx adr res)
    (k : Nat) (hk : k < res.length) :
    C.mac key (some (toBE Gen.CMAC_SIZE (1 + (ndx + k)))) (entryBody res[k]) = .ok res[k].emac ∧
    C.mac key none res[k].payload = .ok res[k].pmac := by
  induction res generalizing ndx adr k with
  | nil => simp at hk
  | cons re rs ih =>
    obtain ⟨_, _, _, hpm, hem, hrest⟩ := h
    cases k with
    | zero => simpa using ⟨hem, hpm⟩
    | succ k =>
      have := ih _ _ hrest k (by simpa using hk)
      simpa [show 1 + (ndx + 1 + k) = 1 + (ndx + (k + 1)) by omega] using this

/-- payloads follow the directory contiguously, in directory order, up to the end of the file -/
theorem payloads_contiguous_to_eof (res : List RawEntry) :
    (bodyBytes res).drop (4 + (dirBytes res).length) = payloads res := by
  simp only [bodyBytes]
  exact List.drop_left' (by simp)

/-- under the reader's preconditions the written body is well-formed and authentic (links C03 to C05) -/
theorem toBinary_wellformed (C : Crypto) (hm : MacLen C) (key : Bytes) (comps : List Comp) (off : Nat) (b : Bytes)
    (hok : ∀ c ∈ comps, CompOK C key c) (h : toBinary C comps off key = .ok b) :
    ∃ res, WellFormed C true key off b res :=
  let ⟨res, hwf, _⟩ := Bec2Verif.Bf3.toBinary_wellformed C hm key comps off b hok h
  ⟨res, hwf⟩

/-! ### BEC2 framing -/

open Bec2 in
/-- header TLVs: each block is `tag, length, value`, the list is closed by `00 00` -/
theorem packBlocks_layout (env : Env) (sk : Bytes) (ext : List Encryptor) (blocks : List AuthBlock)
    (ephs : List Nat) (out : Bytes) (ephs' : List Nat) (h : packBlocks env sk ext blocks ephs = .ok (out, ephs')) :
    ∃ raws : List Bytes, raws.length = blocks.length ∧
      out = (List.zipWith (fun (b : AuthBlock) (r : Bytes) => toBE 1 b.tag ++ toBE 1 r.length ++ r) blocks raws).flatten ++ [0, 0] ∧
      ∀ r ∈ raws, r.length < 256 := by
  induction blocks generalizing ephs out ephs' with
  | nil =>
    simp [packBlocks] at h
    obtain ⟨rfl, _⟩ := h
    exact ⟨[], rfl, rfl, by simp⟩
  | cons b bs ih =>
    simp only [packBlocks, Except.bind_eq_ok] at h
    obtain ⟨⟨raw, e1⟩, _, tb, htb, lb, hlb, ⟨rest, e2⟩, hrest, hp⟩ := h
    simp only [pure, Except.pure, Except.ok.injEq, Prod.mk.injEq] at hp
    obtain ⟨rfl, _⟩ := hp
    obtain ⟨rfl, _⟩ := toBytesBE_ok htb
    obtain ⟨rfl, hl⟩ := toBytesBE_ok hlb
    obtain ⟨raws, hlen, rfl, hlt⟩ := ih e1 rest e2 hrest
    refine ⟨raw :: raws, by simp [hlen], by simp [List.append_assoc], ?_⟩
    intro r hr
    simp only [List.mem_cons] at hr
    rcases hr with rfl | hr
    · simpa using hl
    · exact hlt r hr

open Bec2 in
/-- BEC2 file = signature ++ auth-block TLVs ++ body written at offset = header length -/
theorem bec2_header_layout (env : Env) (f : File) (ext : List Encryptor) (ephs : List Nat) (out : Bytes) (ephs' : List Nat)
    (h : Bec2.toBinary env f ext ephs = .ok (out, ephs')) :
    ∃ packed body, packBlocks env f.key ext f.blocks ephs = .ok (packed, ephs') ∧
      Bf3.toBinary env.C f.comps (Gen.BEC2_FILE_SIG ++ packed).length f.key = .ok body ∧
      out = Gen.BEC2_FILE_SIG ++ packed ++ body := by
  simp only [Bec2.toBinary, Except.bind_eq_ok] at h
  obtain ⟨⟨packed, e1⟩, hpk, body, hbody, hp⟩ := h
  simp only [pure, Except.pure, Except.ok.injEq, Prod.mk.injEq] at hp
  obtain ⟨rfl, rfl⟩ := hp
  exact ⟨packed, body, hpk, hbody, rfl⟩

/-! ### text envelope -/

def isUpperHex (c : Char) : Bool := ('0' ≤ c && c ≤ '9') || ('A' ≤ c && c ≤ 'F')

theorem hexDigitUpper_ok (n : Nat) (h : n < 16) : isUpperHex (Text.hexDigitUpper n) = true := by
  have : n = 0 ∨ n = 1 ∨ n = 2 ∨ n = 3 ∨ n = 4 ∨ n = 5 ∨ n = 6 ∨ n = 7 ∨ n = 8 ∨ n = 9 ∨ n = 10 ∨ n = 11 ∨
      n = 12 ∨ n = 13 ∨ n = 14 ∨ n = 15 := by omega
  rcases this with h | h | h | h | h | h | h | h | h | h | h | h | h | h | h | h <;> subst h <;> decide

theorem hexUpper_chars (bs : Bytes) : ∀ c ∈ Text.hexUpper bs, isUpperHex c = true := by
  intro c hc
  simp only [Text.hexUpper, List.mem_flatMap] at hc
  obtain ⟨b, _, hcb⟩ := hc
  have hb := UInt8.toNat_lt b
  simp only [List.mem_cons, List.mem_nil_iff, or_false] at hcb
  rcases hcb with rfl | rfl
  · exact hexDigitUpper_ok _ (by omega)
  · exact hexDigitUpper_ok _ (by omega)

theorem hexUpper_length (bs : Bytes) : (Text.hexUpper bs).length = 2 * bs.length := by
  induction bs with
  | nil => rfl
  | cons b bs ih =>
    simp only [Text.hexUpper, List.flatMap_cons, List.length_append, List.length_cons, List.length_nil] at ih ⊢
    omega

/-- the data part is a sequence of lines, each the upper-case hex of at most 40 bytes (≤ 80 columns) -/
theorem hexLines_shape (w n : Nat) (bs : Bytes) :
    ∃ lines : List Bytes, Text.hexLinesAux w n bs = (lines.map (fun l => Text.hexUpper l ++ ['\n'])).flatten ∧
      (∀ l ∈ lines, l.length ≤ w) ∧ lines.length = n := by
  induction n generalizing bs with
  | zero => exact ⟨[], rfl, by simp, rfl⟩
  | succ n ih =>
    obtain ⟨ls, h1, h2, h3⟩ := ih (bs.drop w)
    refine ⟨bs.take w :: ls, by simp [Text.hexLinesAux, h1, List.append_assoc], ?_, by simp [h3]⟩
    intro l hl
    simp only [List.mem_cons] at hl
    rcases hl with rfl | hl
    · simp [List.length_take]; omega
    · exact h2 l hl

theorem text_layout (cm : List (Text.Str × Text.Str)) (raw : Bytes) :
    ∃ lines : List Bytes,
      Text.writeText cm raw = (cm.flatMap fun (k, v) => k ++ [':', ' '] ++ v ++ ['\n']) ++ ['\n'] ++
        (lines.map (fun l => Text.hexUpper l ++ ['\n'])).flatten ∧
      (∀ l ∈ lines, (Text.hexUpper l).length ≤ Gen.END_OF_LINE ∧ ∀ c ∈ Text.hexUpper l, isUpperHex c = true) := by
  obtain ⟨lines, h1, h2, _⟩ := hexLines_shape (Gen.END_OF_LINE / 2)
    ((raw.length + (Gen.END_OF_LINE / 2 - 1) + (Gen.END_OF_LINE / 2 - 1)) / (Gen.END_OF_LINE / 2)) raw
  refine ⟨lines, by simp only [Text.writeText, Text.hexLines, h1], ?_⟩
  intro l hl
  refine ⟨?_, hexUpper_chars l⟩
  have := h2 l hl
  rw [hexUpper_length]
  have : Gen.END_OF_LINE = 80 := by decide
  omega

theorem consts_pinned : Gen.BF3_FILE_SIG = [0x42, 0x46, 0x33, 0, 0] ∧ Gen.BEC2_FILE_SIG = [0x42, 0x45, 0x43, 0x32, 0] ∧
    Gen.CMAC_SIZE = 16 ∧ Gen.END_OF_LINE = 80 ∧ Gen.TAG_INIT_CUSTKEY = 1 ∧ Gen.TAG_UPDATE = 2 ∧ Gen.TAG_INIT_ECC = 3 ∧
    Gen.AUTH_BLOCK_TAGS = [1, 2, 3] := by decide

/-- the bundled adapter's MAC is 16 bytes, so the theorems apply to it without hypothesis -/
theorem aes_instance : MacLen aesCrypto := aes_macLen

end Bec2Verif.Props.C03
