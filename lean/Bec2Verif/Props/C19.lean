import Bec2Verif.Lemmas.Codec
/-!
# C19 — key and point encodings

Theorems about the models `Model/Der.lean` (DER primitives of `ecdsa/der.py`) and `Model/PointCodec.lean` (point strings,
SubjectPublicKeyInfo of a named curve), which the correspondence check compares with the code on valid encodings, every
truncation, byte mutations and structurally consistent DER edits.  `Encodable l` only excludes lengths of 2^1016 bytes
and more.  Byte compatibility with OpenSSL, PEM, SEC1/PKCS#8 private keys and explicit curve parameters are evaluated
directly on the real code (all 17 curves, both directions), not modelled.
-/
namespace Bec2Verif.C19
open Bec2Verif Der PointCodec

/-- lengths: `read_length ∘ encode_length = id`, followed by anything -/
theorem length_roundtrip (l : Nat) (rest : Bytes) (h : Encodable l) :
    readLength (encodeLength l ++ rest) = .ok (l, (encodeLength l).length) := readLength_encodeLength l rest h

/-- INTEGER, for every natural number below 2^1000 -/
theorem integer_roundtrip (r : Nat) (rest : Bytes) (h : (beBytes r).length + 1 < 128) :
    removeInteger (encodeInteger r ++ rest) = .ok (r, rest) := removeInteger_encode r rest h

theorem octet_string_roundtrip (body rest : Bytes) (h : Encodable body.length) :
    removeOctetString (encodeOctetString body ++ rest) = .ok (body, rest) := removeOctetString_encode body rest h

theorem sequence_roundtrip (pieces : List Bytes) (rest : Bytes) (h : Encodable pieces.flatten.length) :
    removeSequence (encodeSequence pieces ++ rest) = .ok (pieces.flatten, rest) := removeSequence_encode pieces rest h

theorem bitstring_roundtrip (body rest : Bytes) (h : Encodable (body.length + 1)) :
    removeBitstring (encodeBitstring0 body ++ rest) 0 = .ok (body, rest) := removeBitstring_encode body rest h

theorem constructed_roundtrip (tag : Nat) (htag : tag < 32) (value rest : Bytes) (h : Encodable value.length) :
    removeConstructed (encodeConstructed tag value ++ rest) = .ok (tag, value, rest) :=
  removeConstructed_encode tag htag value rest h

/-- a truncated length field is never readable, and every proper prefix of an encoded SEQUENCE - the outer layer of
every key encoding - is rejected -/
theorem truncated_length_rejected (L j : Nat) (h : Encodable L) (hj : j < (encodeLength L).length) :
    ∃ e, readLength ((encodeLength L).take j) = .error e := readLength_prefix L j h hj

theorem truncated_sequence_rejected (pieces : List Bytes) (k : Nat) (h : Encodable pieces.flatten.length)
    (hk : k < (encodeSequence pieces).length) : ∃ e, removeSequence ((encodeSequence pieces).take k) = .error e :=
  removeSequence_truncated pieces k h hk

/-- raw, uncompressed and hybrid point strings decode to the point they encode -/
theorem point_string_roundtrip (c : CurveParams) (enc : Enc) (henc : enc ≠ .compressed) (x y : Nat)
    (hx : x < 256 ^ orderlen c.p) (hy : y < 256 ^ orderlen c.p) (validate : Bool) :
    ∃ s, toBytes c enc x y = .ok s ∧ fromBytes c s validate = .ok (x, y) :=
  fromBytes_toBytes c enc henc x y hx hy validate

/-- the fixed 27-byte header of `bec2format/crypto.py` (regenerated from the source: `Gen.RAW_DER_HEADER`) is exactly
what the library's DER encoder puts in front of ANY raw 64-byte P-256 key … -/
theorem p256_header_is_der_prefix (raw : Bytes) (h : raw.length = 64) :
    spki p256oid (0x04 :: raw) = Gen.RAW_DER_HEADER ++ raw := header_spec raw h

/-- … the DER decoder applied to header ++ raw selects P-256 and hands `04 ‖ raw` to the point decoder … -/
theorem p256_header_parses (raw : Bytes) (h : raw.length = 64) :
    parseSpki (Gen.RAW_DER_HEADER ++ raw) = .ok (p256oid, 0x04 :: raw) := parse_header raw h

/-- … and cutting `DER_HEADER_LEN` bytes off gives the raw key back -/
theorem p256_raw_of_der (raw : Bytes) : (Gen.RAW_DER_HEADER ++ raw).drop Gen.DER_HEADER_LEN = raw := raw_of_der raw

example : Encodable 300 := by show (beBytes 300).length < 128; decide
example : (beBytes 115792089210356248762697446949407573529996955224135760342422259061068512044369).length + 1 < 128 := by
  decide +kernel

end Bec2Verif.C19
