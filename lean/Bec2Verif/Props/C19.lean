import Bec2Verif.Lemmas.Codec
import Bec2Verif.Lemmas.Sqrt
import Bec2Verif.Lemmas.P256Curve
import Bec2Verif.Lemmas.KeyDer
import Bec2Verif.Lemmas.Oid
import Bec2Verif.Lemmas.CurveDer
import Bec2Verif.Lemmas.Pem
/-!
# C19 — key and point encodings

Theorems about the models `Model/Der.lean` (DER primitives of `ecdsa/der.py`) and `Model/PointCodec.lean` (point strings,
SubjectPublicKeyInfo of a named curve), which the correspondence check compares with the code on valid encodings, every
truncation, byte mutations and structurally consistent DER edits.  `Encodable l` only excludes lengths of 2^1016 bytes
and more.  `Model/Pem.lean` is the PEM armour with the base64 codec of the standard library under it.  Byte compatibility
with OpenSSL and the key objects around the codecs are evaluated directly on the real code (all 17 curves, both directions).
-/
namespace Bec2Verif.C19
open Bec2Verif Der PointCodec

/-- lengths: `read_length ∘ encode_length = id`, followed by anything -/
theorem length_roundtrip (l : Nat) (rest : Bytes) (h : Der.Encodable l) :
    readLength (encodeLength l ++ rest) = .ok (l, (encodeLength l).length) := readLength_encodeLength l rest h

/-- INTEGER, for every natural number below 2^1000 -/
theorem integer_roundtrip (r : Nat) (rest : Bytes) (h : (beBytes r).length + 1 < 128) :
    removeInteger (encodeInteger r ++ rest) = .ok (r, rest) := removeInteger_encode r rest h

theorem octet_string_roundtrip (body rest : Bytes) (h : Der.Encodable body.length) :
    removeOctetString (encodeOctetString body ++ rest) = .ok (body, rest) := removeOctetString_encode body rest h

theorem sequence_roundtrip (pieces : List Bytes) (rest : Bytes) (h : Der.Encodable pieces.flatten.length) :
    removeSequence (encodeSequence pieces ++ rest) = .ok (pieces.flatten, rest) := removeSequence_encode pieces rest h

theorem bitstring_roundtrip (body rest : Bytes) (h : Der.Encodable (body.length + 1)) :
    removeBitstring (encodeBitstring0 body ++ rest) 0 = .ok (body, rest) := removeBitstring_encode body rest h

theorem constructed_roundtrip (tag : Nat) (htag : tag < 32) (value rest : Bytes) (h : Der.Encodable value.length) :
    removeConstructed (encodeConstructed tag value ++ rest) = .ok (tag, value, rest) :=
  removeConstructed_encode tag htag value rest h

/-- OBJECT IDENTIFIER, every OID the encoder is defined on (first arc 0 or 1 with second arc below 40, or first arc 2;
sub-identifiers of any size in base 128), followed by arbitrary data -/
theorem oid_roundtrip (first second : Nat) (pieces : List Nat) (rest : Bytes)
    (harc : (first < 2 ∧ second < 40) ∨ first = 2)
    (henc : Der.Encodable (encodeNumber (40 * first + second) ++ (pieces.map encodeNumber).flatten).length) :
    removeObject (encodeOid first second pieces ++ rest) = .ok (first :: second :: pieces, rest) :=
  removeObject_encodeOid first second pieces rest harc henc

/-- a truncated length field is never readable, and every proper prefix of an encoded SEQUENCE - the outer layer of
every key encoding - is rejected -/
theorem truncated_length_rejected (L j : Nat) (h : Der.Encodable L) (hj : j < (encodeLength L).length) :
    ∃ e, readLength ((encodeLength L).take j) = .error e := readLength_prefix L j h hj

theorem truncated_sequence_rejected (pieces : List Bytes) (k : Nat) (h : Der.Encodable pieces.flatten.length)
    (hk : k < (encodeSequence pieces).length) : ∃ e, removeSequence ((encodeSequence pieces).take k) = .error e :=
  removeSequence_truncated pieces k h hk

/-- raw, uncompressed and hybrid point strings decode to the point they encode -/
theorem point_string_roundtrip (c : CurveParams) (enc : Enc) (henc : enc ≠ .compressed) (x y : Nat)
    (hx : x < 256 ^ orderlen c.p) (hy : y < 256 ^ orderlen c.p) (validate : Bool) :
    ∃ s, toBytes c enc x y = .ok s ∧ fromBytes c s validate = .ok (x, y) :=
  fromBytes_toBytes c enc henc x y hx hy validate

/-- **compressed point strings** decode to the point they encode, on every curve over a prime field with
`p ≡ 3 (mod 4)` (NIST P-192/256/384/521, secp256k1, all brainpool curves): the modelled Jacobi test (binary algorithm with
quadratic reciprocity) is Mathlib's Jacobi symbol and never runs out of its step budget, `pow` is modular exponentiation,
the candidate `α^((p+1)/4)` is `±y` (Euler's criterion), and the parity byte selects `y`.  `(x, y)` is on the curve in
the decoder's own terms; `0 < y` (a curve with a point `y = 0` is outside C17 anyway). -/
theorem compressed_point_roundtrip {p : ℕ} [Fact p.Prime] (c : CurveParams) (hcp : c.p = p) (h34 : p % 4 = 3)
    (hl : 2 ≤ orderlen c.p) (x y : Nat) (hx : x < 256 ^ orderlen c.p) (hy0 : 0 < y) (hy : y < p)
    (hon : ((((x : ℤ) ^ 3 % (c.p : ℤ) + c.a * x + c.b).emod (c.p : ℤ)).toNat) = y * y % p) (validate : Bool) :
    ∃ s, toBytes c .compressed x y = .ok s ∧ fromBytes c s validate = .ok (x, y) :=
  fromBytes_compressed c hcp h34 hl x y hx hy0 hy hon validate

/-- … in particular on NIST P-256 as found in the source, with nothing assumed about the curve -/
theorem p256_compressed_point_roundtrip (x y : Nat) (hx : x < P256C.P) (hy0 : 0 < y) (hy : y < P256C.P)
    (hon : ((((x : ℤ) ^ 3 % (P256C.P : ℤ) + Gen.NIST256p.a * x + Gen.NIST256p.b).emod (P256C.P : ℤ)).toNat) = y * y % P256C.P)
    (validate : Bool) :
    ∃ s, toBytes { p := P256C.P, a := Gen.NIST256p.a, b := Gen.NIST256p.b } .compressed x y = .ok s ∧
      fromBytes { p := P256C.P, a := Gen.NIST256p.a, b := Gen.NIST256p.b } s validate = .ok (x, y) := by
  have hol : orderlen P256C.P = 32 := by decide +kernel
  exact compressed_point_roundtrip (p := P256C.P) { p := P256C.P, a := Gen.NIST256p.a, b := Gen.NIST256p.b } rfl
    (by decide +kernel) (by show 2 ≤ orderlen P256C.P; rw [hol]; decide) x y
    (by show x < 256 ^ orderlen P256C.P; rw [hol]; have : P256C.P < 256 ^ 32 := by decide +kernel
        omega) hy0 hy hon validate

/-- the Jacobi symbol routine of `numbertheory.py` is the Jacobi symbol -/
theorem jacobi_is_jacobi_symbol (fuel a n : Nat) (j : Int) (h : jacobi fuel a n = some j) : j = jacobiSym a n :=
  jacobi_sound fuel a n j h

/-- **private keys** of NIST P-256 in SEC1 (`ssleay`) and PKCS #8 form: `SigningKey.from_der ∘ to_der` returns the
curve and exactly the secret, for every 32-byte secret string in `[1, n)` and whatever public-key string is embedded
(the decoder ignores it) -/
theorem p256_private_key_der_roundtrip (fmt : KeyDer.Fmt) (priv pub : Bytes) (hl : priv.length = 32)
    (hp : pub.length ≤ 1000) (h1 : 1 ≤ fromBE priv) (h2 : (fromBE priv : Int) < Gen.NIST256p.n) :
    KeyDer.privFromDer (KeyDer.privToDer fmt p256oid priv pub) = .ok (Gen.NIST256p, fromBE priv) := by
  cases fmt with
  | ssleay => exact KeyDer.ssleay_roundtrip priv pub hl hp h1 h2
  | pkcs8 => exact KeyDer.pkcs8_roundtrip priv pub hl hp h1 h2

/-- the fixed 27-byte header of `bec2format/crypto.py` (regenerated from the source: `Gen.RAW_DER_HEADER`) is exactly
what the library's DER encoder puts in front of ANY raw 64-byte P-256 key … -/
theorem p256_header_is_der_prefix (raw : Bytes) (h : raw.length = 64) :
    spki p256oid (0x04 :: raw) = Gen.RAW_DER_HEADER ++ raw := header_spec raw h

/-- … the DER decoder applied to header ++ raw selects P-256 and hands `04 ‖ raw` to the point decoder … -/
theorem p256_header_parses (raw : Bytes) (h : raw.length = 64) :
    parseSpki (Gen.RAW_DER_HEADER ++ raw) = .ok (p256oid, 0x04 :: raw) := parse_header raw h

/-- … and cutting `DER_HEADER_LEN` bytes off gives the raw key back -/
theorem p256_raw_of_der (raw : Bytes) : (Gen.RAW_DER_HEADER ++ raw).drop Gen.DER_HEADER_LEN = raw := raw_of_der raw

/-- **explicit curve parameters** (`Curve.to_der("explicit")` / the DER part of `Curve.from_der`): prime, `a mod p`, `b mod p`,
the encoded base point, the order and the cofactor come back (numbers below 2^1000, a cofactor of zero is not written) -/
theorem explicit_parameters_roundtrip (p : Nat) (a b : Int) (base : Bytes) (order : Nat) (cof : Option Nat) (d : Bytes)
    (hp0 : 0 < p) (hp : (beBytes p).length ≤ 125) (ho : (beBytes order).length ≤ 125)
    (hc : ∀ h, cof = some h → (beBytes h).length ≤ 125) (hb : base.length ≤ 1000)
    (h : CurveDer.toDer p a b base order cof = .ok d) :
    CurveDer.parse d = .ok { p := p, a := (a % (p : Int)).toNat, b := (b % (p : Int)).toNat, base := base, order := order,
                             cofactor := CurveDer.normCof cof } :=
  CurveDer.parse_toDer p a b base order cof d hp0 hp ho hc hb h

/-- the whole decoder on the encoder's output for every named curve of the current source, generator uncompressed and
hybrid: `Curve.from_der(curve.to_der("explicit", enc))` finds the named curve again (kernel evaluation of the model) -/
def explicitFinds (r : Gen.CurveRec) (enc : Enc) : Bool :=
  match toBytes { p := r.p.toNat, a := r.a, b := r.b } enc r.gx.toNat r.gy.toNat with
  | .ok base =>
    (match CurveDer.toDer r.p.toNat r.a r.b base r.n.toNat (some r.h.toNat) with
     | .ok d => (match CurveDer.fromDer d with | .ok f => f.name == r.name | .error _ => false)
     | .error _ => false)
  | .error _ => false

theorem explicit_finds_named_curves :
    ∀ r ∈ Gen.curves, explicitFinds r .uncompressed = true ∧ explicitFinds r .hybrid = true := by
  decide +kernel

/-- **base64**: `b64decode(b64encode(d)) == d` for every byte string (the decoder is CPython's non-strict one) -/
theorem base64_roundtrip (d : Bytes) : Pem.b64decode (Pem.b64encode d) = .ok d := Pem.b64decode_encode d

/-- **PEM armour**: `unpem(topem(der, name)) == der` for every DER string of any length and every label without a line
feed (the labels in use: `PUBLIC KEY`, `EC PRIVATE KEY`, `PRIVATE KEY`, `EC PARAMETERS`) — the 64-character lines survive
`split`, the `-----` filter and `strip`; the BEGIN / END lines do not -/
theorem pem_armour_roundtrip (der name : Bytes) (hname : ∀ c ∈ name, c ≠ 10) :
    Pem.unpem (Pem.topem der name) = .ok der := Pem.unpem_topem der name hname

/-- **keys in PEM**: `VerifyingKey.to_pem` is the armour of `to_der` under the label `PUBLIC KEY` and `from_pem` is
`from_der ∘ unpem`, so the P-256 key that BEC2 handles as header ‖ raw comes back from its PEM form … -/
theorem p256_public_key_pem_roundtrip (raw : Bytes) (h : raw.length = 64) :
    (Pem.unpem (Pem.topem (spki p256oid (0x04 :: raw)) [80, 85, 66, 76, 73, 67, 32, 75, 69, 89])).bind parseSpki =
      .ok (p256oid, 0x04 :: raw) := by
  rw [pem_armour_roundtrip _ _ (by decide), p256_header_is_der_prefix raw h]
  exact p256_header_parses raw h

/-- … and a P-256 private key from `to_pem` (labels `EC PRIVATE KEY` for SEC1, `PRIVATE KEY` for PKCS #8; the search for
the BEGIN line in `SigningKey.from_pem` starts the armour at its first byte — that step is compared by evaluation) -/
theorem p256_private_key_pem_roundtrip (fmt : KeyDer.Fmt) (priv pub : Bytes) (hl : priv.length = 32)
    (hp : pub.length ≤ 1000) (h1 : 1 ≤ fromBE priv) (h2 : (fromBE priv : Int) < Gen.NIST256p.n) :
    (Pem.unpem (Pem.topem (KeyDer.privToDer fmt p256oid priv pub)
      (match fmt with
       | .ssleay => [69, 67, 32, 80, 82, 73, 86, 65, 84, 69, 32, 75, 69, 89]
       | .pkcs8 => [80, 82, 73, 86, 65, 84, 69, 32, 75, 69, 89]))).bind KeyDer.privFromDer =
      .ok (Gen.NIST256p, fromBE priv) := by
  rw [pem_armour_roundtrip _ _ (by cases fmt <;> decide)]
  exact p256_private_key_der_roundtrip fmt priv pub hl hp h1 h2

/-- the labels in use satisfy the hypothesis, and a concrete armour decodes -/
example : ∀ c ∈ ([69, 67, 32, 80, 82, 73, 86, 65, 84, 69, 32, 75, 69, 89] : Bytes), c ≠ 10 := by decide  -- "EC PRIVATE KEY"
example : Pem.unpem (Pem.topem [0x30, 0x03, 0x02, 0x01, 0x05] [80, 85, 66, 76, 73, 67, 32, 75, 69, 89]) =
    .ok [0x30, 0x03, 0x02, 0x01, 0x05] := by decide +kernel

example : Der.Encodable 300 := by show (beBytes 300).length < 128; decide
example : (beBytes 115792089210356248762697446949407573529996955224135760342422259061068512044369).length + 1 < 128 := by
  decide +kernel

end Bec2Verif.C19
