import Bec2Verif.Model.EcOps
import Bec2Verif.Props.C17Group
/-!
# C17 — elliptic-curve arithmetic, ECDH and public-point validation

First part (core Lean only): what the validation accepts, stated outright.
The formula / group-law theorems live in `Props/C17Group.lean` (Mathlib), imported here.
-/
namespace Bec2Verif.C17
open Bec2Verif Ec

/-- on a cofactor-1 domain a candidate public point is accepted exactly when both coordinates are in range and the
curve equation holds (and the generator has an order) — nothing else gets through, in particular not `(0, 0)`,
not `x + p`, not a point of another curve -/
theorem validatePoint_iff (d : Domain) (hh : d.h = 1) (x y : Int) :
    validatePoint d x y = .ok () ↔
      (0 ≤ x ∧ x < d.curve.p) ∧ (0 ≤ y ∧ y < d.curve.p) ∧ containsPoint d.curve x y = true ∧ d.n ≠ 0 := by
  unfold validatePoint
  by_cases hx0 : 0 ≤ x <;> by_cases hx1 : x < d.curve.p <;> by_cases hy0 : 0 ≤ y <;> by_cases hy1 : y < d.curve.p <;>
    by_cases hc : containsPoint d.curve x y = true <;> by_cases hn : d.n = 0 <;>
    simp [hx0, hx1, hy0, hy1, hc, hn, hh]

/-- rejection is always `MalformedPointError` on such a domain -/
theorem validatePoint_error (d : Domain) (hh : d.h = 1) (x y : Int) (e : Err) (h : validatePoint d x y = .error e) :
    e = .malformedPoint := by
  unfold validatePoint at h
  simp only [hh, bne_self_eq_false, Bool.false_eq_true, if_false] at h
  split at h
  · cases h; rfl
  · split at h
    · cases h; rfl
    · split at h
      · cases h; rfl
      · cases h

/-- the shared secret is only ever the affine x of a finite point: infinity is refused -/
theorem sharedSecret_not_infinity (d : Domain) (priv x y s : Int) (h : sharedSecret d priv x y = .ok s) :
    ∃ R, mulNaf d.curve 0 (.jac x y 1) priv = some R ∧ isInf R = false := by
  unfold sharedSecret at h
  split at h
  · cases h
  · rename_i r hr
    refine ⟨r, hr, ?_⟩
    split at h
    · cases h
    · rename_i hinf
      simpa using hinf

example : validatePoint { curve := { p := 23, a := -3, b := 8 }, gx := 0, gy := 10, n := 31, h := 1 } 0 10 = .ok () := by
  rw [validatePoint_iff _ rfl]; decide

end Bec2Verif.C17
