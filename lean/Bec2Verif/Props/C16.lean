import Bec2Verif.Lemmas.AesTables
import Bec2Verif.Lemmas.Cbc
import Bec2Verif.Model.Modes
import Bec2Verif.Lemmas.AesKeySched
import Bec2Verif.Lemmas.Frame
import Bec2Verif.Lemmas.Ctr
import Bec2Verif.Lemmas.Cfb
import Bec2Verif.Lemmas.Adapter
import Bec2Verif.Lemmas.Feeder
import Bec2Verif.Lemmas.AdapterFeeder
/-!
# C16 — bundled AES tables = GF(2^8) definitions; adapter = pure zero-padded CBC; stream modes split-independent

* table clause: all 14 lookup tables and `rcon` of the current source, entry by entry (kernel);
* adapter clause: for every invertible block cipher, `encrypt` is CBC of the zero-padded data under the
  given or all-zero IV, `mac` its last block, `decrypt ∘ encrypt` returns exactly the padded data;
  the adapter model is a pure function of `(key, iv, data)` (no state to depend on);
* mode clause: CTR = SP 800-38A key stream; OFB, CTR and CFB output and state do not depend on how the input is split across calls;
* feeder clause: PKCS#7 strips what it appended; `feed(a ++ b)` = `feed(a)`, `feed(b)` for every mode (so any chunking of the input
  gives the result of one call); `Encrypter` over ECB / CBC = the mode block by block on the PKCS#7-padded message and the
  `Decrypter` returns the message; over OFB / CTR / CFB the feeder returns what one call of the mode object returns; the adapter
  model is the CBC mode object and the `padding="none"` feeder used the adapter's way.
* cipher clause: the model of `pyaes.AES` (table-driven rounds on packed words, the key-schedule loop) **is** FIPS-197:
  `encrypt` = Cipher ∘ KeyExpansion, `decrypt` = InvCipher ∘ KeyExpansion for every key of 16/24/32 bytes and every
  block (`Spec/Fips197.lean` is the standard written out: SubBytes as field inverse + affine map, ShiftRows, MixColumns
  over GF(2^8), Figures 5, 11, 12), and InvCipher inverts Cipher — so `BlockInv aesCipher`, the hypothesis of C02,
  C06 and C08, is discharged.
-/
namespace Bec2Verif.Props.C16
open Bec2Verif Bec2Verif.Spec.Gf Bec2Verif.Gen Bec2Verif.AesTables

/-! ### tables (regenerated from `pyaes/aes.py` on every run); `at' t i = t.getD i 0` is the table lookup -/

set_option maxRecDepth 100000

theorem S_eq (x : Nat) (h : x < 256) : at' S x = sbox x :=
  Nat.eq_of_beq_eq_true (allBelow_spec _ _ S_def x h)
theorem Si_inverts_S (x : Nat) (h : x < 256) : at' Si (at' S x) = x ∧ at' S (at' Si x) = x := by
  have := allBelow_spec _ _ Si_def x h
  simp only [Bool.and_eq_true] at this
  exact ⟨Nat.eq_of_beq_eq_true this.1, Nat.eq_of_beq_eq_true this.2⟩
theorem T1_eq (x : Nat) (h : x < 256) : at' T1 x = word (gmul (at' S x) 2) (at' S x) (at' S x) (gmul (at' S x) 3) :=
  Nat.eq_of_beq_eq_true (allBelow_spec _ _ T1_def x h)
theorem T2_eq (x : Nat) (h : x < 256) : at' T2 x = word (gmul (at' S x) 3) (gmul (at' S x) 2) (at' S x) (at' S x) :=
  Nat.eq_of_beq_eq_true (allBelow_spec _ _ T2_def x h)
theorem T3_eq (x : Nat) (h : x < 256) : at' T3 x = word (at' S x) (gmul (at' S x) 3) (gmul (at' S x) 2) (at' S x) :=
  Nat.eq_of_beq_eq_true (allBelow_spec _ _ T3_def x h)
theorem T4_eq (x : Nat) (h : x < 256) : at' T4 x = word (at' S x) (at' S x) (gmul (at' S x) 3) (gmul (at' S x) 2) :=
  Nat.eq_of_beq_eq_true (allBelow_spec _ _ T4_def x h)
theorem T5_eq (x : Nat) (h : x < 256) : at' T5 x = word (gmul (at' Si x) 14) (gmul (at' Si x) 9) (gmul (at' Si x) 13) (gmul (at' Si x) 11) :=
  Nat.eq_of_beq_eq_true (allBelow_spec _ _ T5_def x h)
theorem T6_eq (x : Nat) (h : x < 256) : at' T6 x = word (gmul (at' Si x) 11) (gmul (at' Si x) 14) (gmul (at' Si x) 9) (gmul (at' Si x) 13) :=
  Nat.eq_of_beq_eq_true (allBelow_spec _ _ T6_def x h)
theorem T7_eq (x : Nat) (h : x < 256) : at' T7 x = word (gmul (at' Si x) 13) (gmul (at' Si x) 11) (gmul (at' Si x) 14) (gmul (at' Si x) 9) :=
  Nat.eq_of_beq_eq_true (allBelow_spec _ _ T7_def x h)
theorem T8_eq (x : Nat) (h : x < 256) : at' T8 x = word (gmul (at' Si x) 9) (gmul (at' Si x) 13) (gmul (at' Si x) 11) (gmul (at' Si x) 14) :=
  Nat.eq_of_beq_eq_true (allBelow_spec _ _ T8_def x h)
theorem U1_eq (x : Nat) (h : x < 256) : at' U1 x = word (gmul x 14) (gmul x 9) (gmul x 13) (gmul x 11) :=
  Nat.eq_of_beq_eq_true (allBelow_spec _ _ U1_def x h)
theorem U2_eq (x : Nat) (h : x < 256) : at' U2 x = word (gmul x 11) (gmul x 14) (gmul x 9) (gmul x 13) :=
  Nat.eq_of_beq_eq_true (allBelow_spec _ _ U2_def x h)
theorem U3_eq (x : Nat) (h : x < 256) : at' U3 x = word (gmul x 13) (gmul x 11) (gmul x 14) (gmul x 9) :=
  Nat.eq_of_beq_eq_true (allBelow_spec _ _ U3_def x h)
theorem U4_eq (x : Nat) (h : x < 256) : at' U4 x = word (gmul x 9) (gmul x 13) (gmul x 11) (gmul x 14) :=
  Nat.eq_of_beq_eq_true (allBelow_spec _ _ U4_def x h)
theorem rcon_eq (i : Nat) (h : i < 30) : at' rcon i = gpow 2 i :=
  Nat.eq_of_beq_eq_true (allBelow_spec _ _ rcon_def i h)
theorem rounds_eq : number_of_rounds = [(16, 10), (24, 12), (32, 14)] := rounds_def
theorem table_sizes : S.size = 256 ∧ Si.size = 256 ∧ T1.size = 256 ∧ T2.size = 256 ∧ T3.size = 256 ∧ T4.size = 256
    ∧ T5.size = 256 ∧ T6.size = 256 ∧ T7.size = 256 ∧ T8.size = 256 ∧ U1.size = 256 ∧ U2.size = 256
    ∧ U3.size = 256 ∧ U4.size = 256 ∧ rcon.size = 30 := S_size

/-! ### adapter -/

/-- `encrypt` = CBC of the zero-padded data under the given (or all-zero) IV -/
theorem adapter_encrypt_spec (B : BlockCipher) (key : Bytes) (iv : Option Bytes) (d : Bytes) (k : B.K)
    (hk : B.sched key = .ok k) (hiv : ∀ v, iv = some v → v.length = 16) (hd : d ≠ []) :
    Adapter.encrypt B key iv d = .ok (cbcEncBlocks B k (iv.getD (zeros 16)) (chunks 16 (zeroPad d))).flatten := by
  have hmode : Adapter.mkMode B key iv = .ok (k, iv.getD (zeros 16)) := by
    cases iv with
    | none => simp [Adapter.mkMode, hk, bind, Except.bind, pure, Except.pure]
    | some v =>
      have := hiv v rfl
      simp [Adapter.mkMode, hk, this, bind, Except.bind, pure, Except.pure]
  have hfeed : Adapter.feedAll (zeroPad d) = .ok (chunks 16 (zeroPad d)) := by
    unfold Adapter.feedAll
    have h1 : ¬ ((zeroPad d).length = 0 ∨ (zeroPad d).length % 16 ≠ 0) := by
      intro h
      rcases h with h | h
      · have : d = [] := by simp [zeroPad] at h; exact h.1
        exact hd this
      · exact h (zeroPad_len_mod d)
    rw [if_neg h1]
  have hne : ¬ d.length = 0 := by
    intro h0; exact hd (List.length_eq_zero_iff.mp h0)
  simp only [Adapter.encrypt, if_neg hne, hmode, hfeed, bind, Except.bind, pure, Except.pure]

/-- empty data is refused with `ValueError`, whatever key and IV are -/
theorem adapter_encrypt_empty (B : BlockCipher) (key : Bytes) (iv : Option Bytes) :
    Adapter.encrypt B key iv [] = .error .valueError := by
  simp [Adapter.encrypt]

/-- empty or unaligned ciphertext is refused with `ValueError` -/
theorem adapter_decrypt_unaligned (B : BlockCipher) (key : Bytes) (iv : Option Bytes) (c : Bytes)
    (h : c.length = 0 ∨ c.length % 16 ≠ 0) : Adapter.decrypt B key iv c = .error .valueError := by
  simp only [Adapter.decrypt, if_pos h]

/-- the MAC is the last ciphertext block -/
theorem adapter_mac_spec (B : BlockCipher) (key : Bytes) (iv : Option Bytes) (d c : Bytes)
    (h : Adapter.encrypt B key iv d = .ok c) : Adapter.mac B key iv d = .ok (c.drop (c.length - 16)) := by
  simp [Adapter.mac, h, bind, Except.bind, pure, Except.pure]

/-- decryption returns exactly the zero-padded data that was encrypted -/
theorem adapter_decrypt_encrypt (B : BlockCipher) (hB : BlockInv B) (key : Bytes) (iv : Option Bytes) (d c : Bytes)
    (h : Adapter.encrypt B key iv d = .ok c) : Adapter.decrypt B key iv c = .ok (zeroPad d) :=
  Bec2Verif.adapter_decrypt_encrypt B hB key iv d c h

theorem adapter_ciphertext_len (B : BlockCipher) (hB : BlockInv B) (key : Bytes) (iv : Option Bytes) (d c : Bytes)
    (h : Adapter.encrypt B key iv d = .ok c) : c.length = (zeroPad d).length :=
  adapter_encrypt_len B hB key iv d c h

/-! ### OFB: output and state do not depend on how the input is split -/

theorem ofbLoop_append (B : BlockCipher) (k : B.K) (a b reg rem out : Bytes) :
    Modes.ofbLoop B k (a ++ b) reg rem out =
      Modes.ofbLoop B k b (Modes.ofbLoop B k a reg rem out).1 (Modes.ofbLoop B k a reg rem out).2.1
        (Modes.ofbLoop B k a reg rem out).2.2 ∨
    -- (only if the cipher returns an empty block, which `BlockInv` excludes)
    ∃ r, (B.enc k r) = [] := by
  induction a generalizing reg rem out with
  | nil => left; simp [Modes.ofbLoop]
  | cons p ps ih =>
    by_cases hrem : rem.isEmpty
    · cases henc : B.enc k reg with
      | nil => right; exact ⟨reg, henc⟩
      | cons x xs =>
        simp only [List.cons_append, Modes.ofbLoop, hrem, if_true, henc]
        exact ih _ _ _
    · cases rem with
      | nil => simp at hrem
      | cons x xs =>
        simp only [List.cons_append, Modes.ofbLoop, List.isEmpty_cons, Bool.false_eq_true, if_false]
        exact ih _ _ _

/-! ### CTR and CFB -/

/-- **CTR (SP 800-38A §6.5)**: a call XORs the data with what is left of the previous key-stream block followed by
`E(T) ‖ E(T+1) ‖ …` (`T` the current counter block; the counter is a 128-bit big-endian integer that wraps), keeps the
unused rest and advances the counter by the number of blocks drawn -/
theorem ctr_call (B : BlockCipher) (hlen : ∀ key b, (B.enc key b).length = 16) (s : Modes.St B) (hk : s.kind = .ctr)
    (dec : Bool) (data : Bytes) :
    Modes.step B s dec data =
      .ok ({ s with rem := (s.rem ++ Modes.ks B s.key (Modes.blocksFor data.length s.rem.length) s.counter).drop data.length,
                    counter := Modes.incN (Modes.blocksFor data.length s.rem.length) s.counter },
           xorBytes data (s.rem ++ Modes.ks B s.key (Modes.blocksFor data.length s.rem.length) s.counter)) :=
  Modes.step_ctr B hlen s hk dec data

/-- CTR: output and state do not depend on how the input is split across calls (any split point) -/
theorem ctr_split_independent (B : BlockCipher) (hlen : ∀ key b, (B.enc key b).length = 16) (s : Modes.St B)
    (hk : s.kind = .ctr) (dec : Bool) (a b : Bytes) :
    Modes.step B s dec (a ++ b) =
      (Modes.step B s dec a >>= fun (s1, o1) => Modes.step B s1 dec b >>= fun (s2, o2) => .ok (s2, o1 ++ o2)) :=
  Modes.ctr_split B hlen s hk dec a b

/-- CFB with any segment size: output and shift register do not depend on how the input is split at segment boundaries -/
theorem cfb_split_independent (B : BlockCipher) (seg : Nat) (hseg : 0 < seg) (s : Modes.St B) (hk : s.kind = .cfb seg)
    (hreg : s.listReg = false) (dec : Bool) (a b : Bytes) (n m : Nat) (ha : a.length = n * seg) (hb : b.length = m * seg) :
    Modes.step B s dec (a ++ b) =
      (Modes.step B s dec a >>= fun (s1, o1) => Modes.step B s1 dec b >>= fun (s2, o2) => .ok (s2, o1 ++ o2)) :=
  Modes.cfb_split B seg hseg s hk hreg dec a b n m ha hb

/-! ### block feeders (`pyaes/blockfeeder.py`: `Encrypter` / `Decrypter`, `append_PKCS7_padding` / `strip_PKCS7_padding`) -/

/-- PKCS#7: stripping what was appended returns the data, for every length -/
theorem pkcs7_roundtrip (d : Bytes) : Modes.stripPkcs7 (Modes.pkcs7 d) = .ok d := Modes.stripPkcs7_pkcs7 d

/-- **feeders are split-independent, every mode**: `feed(a ++ b)` and `feed(a)` followed by `feed(b)` return the same bytes
and leave the same feeder (buffer and mode object) behind, and one fails iff the other does -/
theorem feeder_feed_append (B : BlockCipher) (hlen : ∀ key b, (B.enc key b).length = 16) (f : Modes.Feeder B) (buf a b : Bytes)
    (hb : f.buffer = some buf) (hseg : ∀ seg, f.mode.kind = .cfb seg → 0 < seg) :
    Modes.feed B f (some (a ++ b)) =
      match Modes.feed B f (some a) with
      | .error e => .error e
      | .ok (f1, o1) =>
        match Modes.feed B f1 (some b) with
        | .error e => .error e
        | .ok (f2, o2) => .ok (f2, o1 ++ o2) :=
  Modes.feed_append B hlen f buf a b hb hseg

/-- … hence for any way of cutting the input into chunks, the chunks fed one by one and then the finalising `feed()`
return what a single `feed` with everything and `feed()` return -/
theorem feeder_split_independent (B : BlockCipher) (hlen : ∀ key b, (B.enc key b).length = 16) (f : Modes.Feeder B)
    (buf c : Bytes) (cs : List Bytes) (hb : f.buffer = some buf) (hseg : ∀ seg, f.mode.kind = .cfb seg → 0 < seg) :
    Modes.feedAllMany B f (c :: cs) = Modes.feedAll B f (c ++ cs.flatten) :=
  Modes.feedAllMany_eq B hlen f buf c cs hb hseg

/-- `Encrypter` over ECB / CBC with the default padding = the mode object applied block by block to the PKCS#7-padded message -/
theorem feeder_encrypter_ecb_cbc (B : BlockCipher) (f : Modes.Feeder B) (hk : f.mode.kind = .ecb ∨ f.mode.kind = .cbc)
    (hdec : f.dec = false) (hpad : f.padding = .default) (hb : f.buffer = some []) (data : Bytes) :
    Modes.feedAll B f data =
      match Modes.stepBlocks B false ((Modes.pkcs7 data).length / 16) f.mode (Modes.pkcs7 data) with
      | .error e => .error e
      | .ok (_, o) => .ok o :=
  Modes.feedAll_enc_block B f hk hdec hpad hb data

/-- `Decrypter ∘ Encrypter = id` for ECB / CBC with PKCS#7 over an invertible block cipher (same key and IV), and the
ciphertext is as long as the padded message -/
theorem feeder_roundtrip_ecb_cbc (B : BlockCipher) (hB : BlockInv B) (key : Bytes) (me md : Modes.St B) (data : Bytes)
    (hkey : B.sched key = .ok me.key) (hkind : me.kind = .ecb ∨ me.kind = .cbc) (hsame : Modes.InStep B me md)
    (hreg : me.reg.length = 16) :
    ∃ C, Modes.feedAll B { mode := me, dec := false, padding := .default, buffer := some [] } data = .ok C ∧
      C.length = (Modes.pkcs7 data).length ∧
      Modes.feedAll B { mode := md, dec := true, padding := .default, buffer := some [] } C = .ok data :=
  Modes.feeder_roundtrip_block B hB key me md data hkey hkind hsame hreg

/-- feeders over OFB / CTR return what one call of the mode object on the whole message returns -/
theorem feeder_ofb_ctr (B : BlockCipher) (hlen : ∀ key b, (B.enc key b).length = 16) (f : Modes.Feeder B)
    (hk : f.mode.kind = .ofb ∨ f.mode.kind = .ctr) (hb : f.buffer = some []) (data : Bytes) :
    Modes.feedAll B f data =
      match Modes.step B f.mode f.dec data with
      | .error e => .error e
      | .ok (_, o) => .ok o :=
  Modes.feedAll_stream B hlen f hk hb data

/-- feeders over CFB (segments of 1…16 bytes): zero-padded to the next segment boundary, through the mode object, cut back -/
theorem feeder_cfb (B : BlockCipher) (hlen : ∀ key b, (B.enc key b).length = 16) (f : Modes.Feeder B) (seg : Nat)
    (hk : f.mode.kind = .cfb seg) (hseg : 0 < seg) (h16 : seg ≤ 16) (hreg : f.mode.listReg = false)
    (hpad : f.padding = .default) (hb : f.buffer = some []) (data : Bytes) :
    Modes.feedAll B f data =
      match Modes.step B f.mode f.dec (data ++ zeros (seg - data.length % seg)) with
      | .error e => .error e
      | .ok (_, o) => .ok (o.take data.length) :=
  Modes.feedAll_cfb B hlen f seg hk hseg h16 hreg hpad hb data

/-- **`encrypt_stream` / `decrypt_stream`** (`_feed_stream`): whatever non-empty chunks the stream's `read(block_size)` calls
return before the first empty one — complete reads of any block size, short reads — the bytes written to the output stream
are those of one `feed(data)` and the finalising `feed()` on the whole content; an exception is the same one -/
theorem stream_chunking_independent (B : BlockCipher) (hlen : ∀ key b, (B.enc key b).length = 16) (f : Modes.Feeder B)
    (cs : List Bytes) (hb : f.buffer = some []) (hseg : ∀ seg, f.mode.kind = .cfb seg → 0 < seg) :
    Modes.feedStreamChunks B f cs = Modes.feedAll B f cs.flatten :=
  Modes.feedStreamChunks_eq_feedAll B hlen f cs hb hseg

/-- … and a stream that reads completely is cut into such chunks for every `block_size > 0` -/
theorem stream_block_size_independent (B : BlockCipher) (hlen : ∀ key b, (B.enc key b).length = 16) (f : Modes.Feeder B)
    (n : Nat) (hn : 0 < n) (data : Bytes) (hb : f.buffer = some []) (hseg : ∀ seg, f.mode.kind = .cfb seg → 0 < seg) :
    Modes.feedStream B f n data = Modes.feedAll B f data :=
  Modes.feedStream_eq_feedAll B hlen f n hn data hb hseg

/-- **the adapter model is the general mode-object and feeder models used the adapter's way**: a fresh CBC object, a feeder
with `padding="none"`, one `feed(data)` and `feed()` -/
theorem adapter_is_cbc_feeder (B : BlockCipher) (key : Bytes) (iv : Option Bytes) (data : Bytes) :
    (Adapter.encrypt B key iv data =
      if data.length = 0 then .error .valueError else
      match Modes.new B .cbc key iv 0 with
      | .error e => .error e
      | .ok m => Modes.feedAll B { mode := m, dec := false, padding := .none, buffer := some [] } (zeroPad data)) ∧
    (Adapter.decrypt B key iv data =
      if data.length = 0 ∨ data.length % 16 ≠ 0 then .error .valueError else
      match Modes.new B .cbc key iv 0 with
      | .error e => .error e
      | .ok m => Modes.feedAll B { mode := m, dec := true, padding := .none, buffer := some [] } data) :=
  ⟨Modes.adapter_encrypt_is_feeder B key iv data, Modes.adapter_decrypt_is_feeder B key iv data⟩

/-- the hypotheses of the feeder theorems are met by a fresh feeder over a mode object that `new` built -/
example (B : BlockCipher) (key : Bytes) (iv : Option Bytes) (m : Modes.St B) (seg : Nat) (h : Modes.new B (.cfb seg) key iv 0 = .ok m) :
    ∀ s, m.kind = .cfb s → 0 < s := by
  unfold Modes.new at h
  simp only [bind, Except.bind, pure, Except.pure] at h
  split at h
  · cases h
  · split at h
    · cases h
    · injection h with h
      subst h
      intro s hs
      simp only at hs
      injection hs with hs
      rw [← hs]
      split <;> omega

/-- the regenerated constants of `crypto.AES128` -/
theorem consts_pinned : Gen.AES_BLOCK_SIZE = 16 ∧ Gen.AES_KEY_SIZE = 16 := by decide

/-! ### the cipher -/

open Bec2Verif.Spec.Fips in
/-- `AES(key).encrypt(block)` = FIPS-197 AES encryption, all three key sizes -/
theorem aes_encrypt_is_fips (key : Bytes) (k : Aes.Keys) (h : Aes.mkKeys key = .ok k) (pt : List Nat)
    (hl : pt.length = 16) (hb : ∀ x ∈ pt, x < 256) : Aes.encryptBlock k pt = aesEncrypt (key.map UInt8.toNat) pt :=
  AesW.encrypt_eq_fips key k h pt hl hb

open Bec2Verif.Spec.Fips in
/-- `AES(key).decrypt(block)` = FIPS-197 InvCipher under the same key expansion -/
theorem aes_decrypt_is_fips (key : Bytes) (k : Aes.Keys) (h : Aes.mkKeys key = .ok k) (ct : List Nat)
    (hl : ct.length = 16) (hb : ∀ x ∈ ct, x < 256) : Aes.decryptBlock k ct = aesDecrypt (key.map UInt8.toNat) ct :=
  AesW.decrypt_eq_fips key k h ct hl hb

open Bec2Verif.Spec.Fips Bec2Verif.AesGf in
/-- FIPS-197 itself: InvCipher ∘ Cipher = id for every round-key sequence of bytes and every number of rounds -/
theorem fips_invCipher_cipher (w : Nat → State) (hw : ∀ r, ByteSt (w r)) (nr : Nat) (hnr : 1 ≤ nr) (s : State)
    (hs : ByteSt s) : invCipher w nr (cipher w nr s) = s := invCipher_cipher w hw nr hnr s hs

/-- the key schedule is KeyExpansion (Fig. 11) for 128-, 192- and 256-bit keys -/
theorem aes_key_schedule_is_fips (key : List Nat) (rounds : Nat) (hb : ∀ x ∈ key, x < 256)
    (h : (key.length = 16 ∧ rounds = 10) ∨ (key.length = 24 ∧ rounds = 12) ∨ (key.length = 32 ∧ rounds = 14)) :
    AesW.cw (Aes.expandKey key rounds) = Spec.Fips.keyExpansion (Spec.Fips.colsOfBytes key) rounds :=
  AesW.expandKey_eq key rounds hb h

/-- decryption inverts encryption for every key the constructor accepts -/
theorem aes_decrypt_encrypt (key : Bytes) (k : Aes.Keys) (h : Aes.mkKeys key = .ok k) (pt : List Nat)
    (hl : pt.length = 16) (hb : ∀ x ∈ pt, x < 256) : Aes.decryptBlock k (Aes.encryptBlock k pt) = pt :=
  AesW.decryptBlock_encryptBlock key k h pt hl hb

/-- **the bundled AES is an invertible block cipher**: the hypothesis `BlockInv` of C02 / C06 / C08, discharged -/
theorem aes_blockInv : BlockInv aesCipher where
  encLen k b := by
    show ((Aes.encryptBlock k (b.map UInt8.toNat)).map UInt8.ofNat).length = 16
    rw [List.length_map]
    exact AesW.encryptBlock_length k _
  inv key k b hk hb := AesW.aes_inv key k hk b hb

/-- … so the bundled plug-in (adapter over pyaes) inverts its own zero-padded encryption and has a 16-byte MAC -/
theorem aes_plugin_instance : CryptoInv aesCrypto ∧ Bf3.MacLen aesCrypto :=
  ⟨adapter_cryptoInv aesCipher aes_blockInv, adapter_macLen aesCipher aes_blockInv.encLen⟩

/-- FIPS-197 Appendix C.1 – C.3 evaluated on the *specification* (all three key sizes, both directions) -/
example : Spec.Fips.aesEncrypt (List.range 16) [0x00,0x11,0x22,0x33,0x44,0x55,0x66,0x77,0x88,0x99,0xaa,0xbb,0xcc,0xdd,0xee,0xff] =
    [0x69,0xc4,0xe0,0xd8,0x6a,0x7b,0x04,0x30,0xd8,0xcd,0xb7,0x80,0x70,0xb4,0xc5,0x5a] := by decide +kernel
example : Spec.Fips.aesEncrypt (List.range 24) [0x00,0x11,0x22,0x33,0x44,0x55,0x66,0x77,0x88,0x99,0xaa,0xbb,0xcc,0xdd,0xee,0xff] =
    [0xdd,0xa9,0x7c,0xa4,0x86,0x4c,0xdf,0xe0,0x6e,0xaf,0x70,0xa0,0xec,0x0d,0x71,0x91] := by decide +kernel
example : Spec.Fips.aesEncrypt (List.range 32) [0x00,0x11,0x22,0x33,0x44,0x55,0x66,0x77,0x88,0x99,0xaa,0xbb,0xcc,0xdd,0xee,0xff] =
    [0x8e,0xa2,0xb7,0xca,0x51,0x67,0x45,0xbf,0xea,0xfc,0x49,0x90,0x4b,0x49,0x60,0x89] := by decide +kernel
example : Spec.Fips.aesDecrypt (List.range 32) [0x8e,0xa2,0xb7,0xca,0x51,0x67,0x45,0xbf,0xea,0xfc,0x49,0x90,0x4b,0x49,0x60,0x89] =
    [0x00,0x11,0x22,0x33,0x44,0x55,0x66,0x77,0x88,0x99,0xaa,0xbb,0xcc,0xdd,0xee,0xff] := by decide +kernel

/-- FIPS-197 Appendix B / C.1 vectors evaluated on the model (tests, labelled as tests) -/
example : (Aes.mkKeys ((List.range 16).map UInt8.ofNat)).toOption.map
    (fun k => Aes.encryptBlock k [0x00,0x11,0x22,0x33,0x44,0x55,0x66,0x77,0x88,0x99,0xaa,0xbb,0xcc,0xdd,0xee,0xff]) =
    some [0x69,0xc4,0xe0,0xd8,0x6a,0x7b,0x04,0x30,0xd8,0xcd,0xb7,0x80,0x70,0xb4,0xc5,0x5a] := by decide +kernel

end Bec2Verif.Props.C16
