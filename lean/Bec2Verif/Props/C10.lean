import Bec2Verif.Lemmas.Tlv
/-!
# C10 — configurations encode to bounded TLV blocks that decode to the same operations
-/
namespace Bec2Verif.Props.C10
open Bec2Verif Bec2Verif.Tlv Bec2Verif.Spec.TlvGrammar Bec2Verif.ConfigId

/-- the property's quantifier: a dictionary (unique `(key, value)` pairs) over keys 0..0xFFFF,
value ids 0..0xFE, contents of 0..254 bytes -/
structure DictOK (d : ConfDict) : Prop where
  nodup : ((entries d).map kv).Nodup
  ok : ∀ e ∈ entries d, EntryOK e

theorem list_facts (d : ConfDict) (l : List Entry) (h : confDictToList d = .ok l) :
    l = sort ((entries d).filter (fun e => !isSet e)) ++ sort ((entries d).filter isSet) ∧ l.Perm (entries d) := by
  unfold confDictToList at h
  simp only at h
  split at h
  · cases h
  · injection h with h
    subst h
    refine ⟨rfl, ?_⟩
    have h1 := sort_perm ((entries d).filter (fun e => !isSet e))
    have h2 := sort_perm ((entries d).filter isSet)
    have h3 : ((entries d).filter (fun e => !isSet e) ++ (entries d).filter isSet).Perm (entries d) := by
      have := List.filter_append_perm isSet (entries d)
      exact (List.perm_append_comm).trans this
    exact (List.Perm.append h1 h2).trans h3

/-- **order**: all deletions in sorted order, then all assignments in sorted order, each entry exactly once -/
theorem order_spec (d : ConfDict) (l : List Entry) (h : confDictToList d = .ok l) :
    ∃ dels sets, l = dels ++ sets ∧ Sorted dels ∧ Sorted sets ∧ (∀ e ∈ dels, isSet e = false) ∧ (∀ e ∈ sets, isSet e = true) ∧
      l.Perm (entries d) := by
  obtain ⟨hl, hperm⟩ := list_facts d l h
  refine ⟨_, _, hl, sort_sorted _, sort_sorted _, ?_, ?_, hperm⟩
  · intro e he
    have := (sort_perm _).mem_iff.mp he
    simpa using (List.mem_filter.mp this).2
  · intro e he
    have := (sort_perm _).mem_iff.mp he
    exact (List.mem_filter.mp this).2

/-- **decoding**: the blocks decode (by the independent grammar) to exactly the dictionary's operations in that order -/
theorem tlv_decodes (d : ConfDict) (hd : DictOK d) (blocks : List Bytes) (h : confDictToTlv d = .ok blocks) :
    ∃ l, confDictToList d = .ok l ∧ decodeBlocks blocks = some (l.map opOf) := by
  simp only [confDictToTlv, Except.bind_eq_ok] at h
  obtain ⟨l, hl, ps, hps, hp⟩ := h
  simp only [pure, Except.pure, Except.ok.injEq] at hp
  subst hp
  obtain ⟨_, hperm⟩ := list_facts d l hl
  have hok : ∀ e ∈ l, EntryOK e := fun e he => hd.ok e (hperm.mem_iff.mp he)
  have hnd : (l.map kv).Nodup := (hperm.map kv).nodup_iff.mpr hd.nodup
  have hnr := noRepeat_of_nodup l ps hps hok hnd [] (by intro e _ _; simp)
  exact ⟨l, hl, merge_decodes l ps hps hok hnr⟩

theorem parts_mem (l : List Entry) (ps : List (Bytes × Bytes × Bytes)) (h : parts l = .ok ps) :
    ∀ p ∈ ps, ∃ e ∈ l, part e = .ok p := by
  induction l generalizing ps with
  | nil => simp [parts] at h; subst h; simp
  | cons e es ih =>
    simp only [parts, Except.bind_eq_ok] at h
    obtain ⟨p, hp, ps', hps', hpure⟩ := h
    simp only [pure, Except.pure, Except.ok.injEq] at hpure
    subst hpure
    intro q hq
    simp only [List.mem_cons] at hq
    rcases hq with rfl | hq
    · exact ⟨e, by simp, hp⟩
    · obtain ⟨e', he', hpe'⟩ := ih ps' hps' q hq
      exact ⟨e', by simp [he'], hpe'⟩

/-- **no empty block** (an empty block would read as the end-of-list marker) -/
theorem tlv_nonempty (d : ConfDict) (hd : DictOK d) (blocks : List Bytes) (h : confDictToTlv d = .ok blocks) :
    ∀ b ∈ blocks, b ≠ [] := by
  simp only [confDictToTlv, Except.bind_eq_ok] at h
  obtain ⟨l, hl, ps, hps, hp⟩ := h
  simp only [pure, Except.pure, Except.ok.injEq] at hp
  subst hp
  obtain ⟨_, hperm⟩ := list_facts d l hl
  apply merge_nonempty
  intro p hp
  obtain ⟨e, he, hpe⟩ := parts_mem l ps hps p hp
  rcases part_cases e (hd.ok e (hperm.mem_iff.mp he)) p hpe with ⟨_, rfl⟩ | ⟨_, h1, _⟩
  · simp
  · rw [h1]; simp

/-- encoded size of one entry: group header + item + closing byte -/
def entrySize (e : Entry) : Nat :=
  match e.value, e.content with
  | none, _ => 3
  | some _, none => 3 + 2 + 1
  | some _, some c => 3 + 2 + c.length + 1

/-- **bound**: every block is at most 117 bytes whenever every single entry fits in one block -/
theorem tlv_bounded (d : ConfDict) (hd : DictOK d) (blocks : List Bytes) (h : confDictToTlv d = .ok blocks)
    (hfit : ∀ e ∈ entries d, entrySize e ≤ Gen.MAX_TLVBLOCK_SIZE) : ∀ b ∈ blocks, b.length ≤ Gen.MAX_TLVBLOCK_SIZE := by
  simp only [confDictToTlv, Except.bind_eq_ok] at h
  obtain ⟨l, hl, ps, hps, hp⟩ := h
  simp only [pure, Except.pure, Except.ok.injEq] at hp
  subst hp
  obtain ⟨_, hperm⟩ := list_facts d l hl
  apply merge_bounded
  intro p hp
  obtain ⟨e, he, hpe⟩ := parts_mem l ps hps p hp
  have hmem := hperm.mem_iff.mp he
  have hsz := hfit e hmem
  have hok := hd.ok e hmem
  unfold part at hpe
  rw [if_neg (by have := hok.1; omega)] at hpe
  unfold entrySize at hsz
  cases hv : e.value with
  | none => simp only [hv] at hpe hsz; injection hpe with hpe; subst hpe; simp [partSize]; omega
  | some v =>
    cases hc : e.content with
    | none =>
      simp only [hv, hc] at hpe hsz
      split at hpe
      · cases hpe
      · injection hpe with hpe; subst hpe; simp [partSize]; omega
    | some c =>
      simp only [hv, hc] at hpe hsz
      split at hpe
      · cases hpe
      · injection hpe with hpe; subst hpe; simp [partSize]; omega

/-- **framing**: the blob is the length-prefixed blocks closed by a single `00`; splitting it at the
length bytes returns exactly the blocks and consumes everything -/
theorem blob_single_terminator (blocks : List Bytes) (blob : Bytes) (h : blobOf blocks = .ok blob)
    (hne : ∀ b ∈ blocks, b ≠ []) : splitBlob (blob.length + 1) blob = some (blocks, []) := by
  induction blocks generalizing blob with
  | nil => simp [blobOf] at h; subst h; simp [splitBlob]
  | cons b bs ih =>
    simp only [blobOf, Except.bind_eq_ok] at h
    obtain ⟨lb, hlb, r, hr, hp⟩ := h
    simp only [pure, Except.pure, Except.ok.injEq] at hp
    subst hp
    obtain ⟨rfl, hlen⟩ := toBytesBE_ok hlb
    have hb := hne b (by simp)
    have hpos : 0 < b.length := List.length_pos_iff.mpr hb
    have hl256 : b.length < 256 := by simpa using hlen
    have hfirst : toBE 1 b.length = [UInt8.ofNat b.length] := by simp [toBE, Nat.mod_eq_of_lt hl256]
    have hnz : UInt8.ofNat b.length ≠ 0 := by
      intro h0
      have := congrArg UInt8.toNat h0
      rw [toNat_ofNat_lt _ hl256] at this
      have h00 : (0 : UInt8).toNat = 0 := rfl
      rw [h00] at this
      omega
    have ih' := ih r hr (fun b' hb' => hne b' (by simp [hb']))
    rw [hfirst]
    simp only [List.cons_append, List.nil_append, List.length_cons, List.length_append]
    rw [show b.length + r.length + 1 + 1 = (b.length + r.length + 1) + 1 by omega]
    simp only [splitBlob, if_neg hnz, toNat_ofNat_lt _ hl256, List.length_append]
    rw [if_pos (by omega)]
    rw [List.drop_left' rfl, List.take_left' rfl]
    have hmono : splitBlob (b.length + r.length + 1) r = some (bs, []) := by
      clear ih hr hne
      -- more fuel does not change the result
      have key : ∀ (f f' : Nat) (x : Bytes) (res : List Bytes × Bytes), splitBlob f x = some res → f ≤ f' →
          splitBlob f' x = some res := by
        intro f
        induction f with
        | zero => intro f' x res hx; cases x <;> simp [splitBlob] at hx
        | succ f ihf =>
          intro f' x res hx hff
          cases f' with
          | zero => omega
          | succ f' =>
            cases x with
            | nil => simp [splitBlob] at hx
            | cons n rr =>
              simp only [splitBlob] at hx ⊢
              split at hx
              · rename_i hn; rw [if_pos hn]; exact hx
              · rename_i hn
                rw [if_neg hn]
                split at hx
                · rename_i hle
                  rw [if_pos hle]
                  cases hrec : splitBlob f (rr.drop n.toNat) with
                  | none => simp [hrec] at hx
                  | some pr => rw [ihf f' _ pr hrec (by omega)]; simpa [hrec] using hx
                · cases hx
      exact key _ _ _ _ ih' (by omega)
    simp [hmono]

/-- `set_config`: the component appended carries the blob of the configuration blocks followed
unchanged by the caller's extra blocks, declared length = blob length, encrypted, tagged as TLV
configuration that requests a reboot; it is the last component and the only change besides removing
the previous configuration -/
theorem set_config_component (comps : List Bf3.Comp) (d : ConfDict) (extra : List Bytes) (out : List Bf3.Comp)
    (h : setConfig comps d extra = .ok out) :
    ∃ blocks blob, confDictToTlv d = .ok blocks ∧ blobOf (blocks ++ extra) = .ok blob ∧
      out = removeFirstConfig comps ++ [{ desc := configDesc, blob := blob, actualLen := blob.length, enc := true }] := by
  simp only [setConfig, Except.bind_eq_ok] at h
  obtain ⟨blocks, hb, blob, hbl, hp⟩ := h
  simp only [pure, Except.pure, Except.ok.injEq] at hp
  exact ⟨blocks, blob, hb, hbl, hp.symm⟩

theorem config_tags_pinned :
    configDesc = [(0xC3, [3]), (0xC2, [2]), (0xC1, [3]), (0xC5, [1])] ∧ Gen.MAX_TLVBLOCK_SIZE = 117 := by decide

/-- non-vacuity: a dictionary with a delete-key, a delete-value and a 111-byte value (entry size exactly 117) -/
def sampleDict : ConfDict :=
  [((0x0620, some 1), some [0, 0, 0x27, 0xFA]), ((5, none), none), ((7, some 3), none), ((9, some 0xFE), some (List.replicate 111 0))]

example : DictOK sampleDict ∧ ∀ e ∈ entries sampleDict, entrySize e ≤ Gen.MAX_TLVBLOCK_SIZE := by
  refine ⟨⟨by decide, ?_⟩, ?_⟩ <;>
  · intro e he
    simp only [sampleDict, entries, List.map_cons, List.map_nil, List.mem_cons, List.mem_nil_iff, or_false] at he
    rcases he with rfl | rfl | rfl | rfl <;> first | decide | (refine ⟨by decide, ?_, ?_⟩ <;> intro x hx <;> cases hx <;> decide)

end Bec2Verif.Props.C10
