import Bec2Verif.Lemmas.Bec2
import Bec2Verif.Model.P256
import Bec2Verif.Lemmas.P256Laws
import Bec2Verif.Props.C16
/-!
# C09 — the ECC auth block is decryptable by an independent ECIES implementation

What "independent implementation" can mean inside a proof is the mathematical definition: the block
is determined by `(selector, ephemeral scalar, recipient point, session key)` through ECDH, SHA-256
and AES-128-CBC exactly as stated; any implementation of these primitives recovers the key.
OpenSSL itself is exercised by the harness (search only).
-/
namespace Bec2Verif.Props.C09
open Bec2Verif Bec2Verif.Bf3 Bec2Verif.Bec2

/-- block format: `0x04`, ephemeral public point `X‖Y`, session key under
AES-128-CBC (zero IV) keyed with the first 16 bytes of SHA-256 of the shared x-coordinate -/
theorem ecc_block_format (env : Env) (pub : Bytes) (eph : Nat) (sk c : Bytes) (h : eccEncrypt env pub eph sk = .ok c) :
    ∃ secret ephPub ct, env.E.dh eph pub = .ok secret ∧ env.E.pubOf eph = .ok ephPub ∧
      env.C.encrypt ((env.sha secret).take 16) none sk = .ok ct ∧ c = [0x04] ++ ephPub ++ ct := by
  simp only [eccEncrypt, Except.bind_eq_ok] at h
  obtain ⟨secret, hdh, ephPub, hep, ct, hct, hp⟩ := h
  simp only [pure, Except.pure, Except.ok.injEq] at hp
  exact ⟨secret, ephPub, ct, hdh, hep, hct, hp.symm⟩

/-- the auth block value is the selector byte followed by that -/
theorem ecc_authblock_format (env : Env) (sel : Nat) (sk : Bytes) (ext : List Encryptor) (ephs ephs' : List Nat) (raw : Bytes)
    (h : packBlock env (.initEcc sel) sk ext ephs = .ok (raw, ephs')) :
    ∃ c, raw = [UInt8.ofNat sel] ++ c ∧ sel < 256 ∧ c.take 1 = [0x04] := by
  simp only [packBlock] at h
  cases hlk : Gen.DEFAULT_PUBLIC_KEYS.lookup sel with
  | none => simp [hlk, throw, throwThe, MonadExceptOf.throw, bind, Except.bind] at h
  | some der =>
  simp only [hlk, pure, Except.pure, bind, Except.bind] at h
  cases hs : selectEncryptor Kind.ecc ext (some (Encryptor.eccPub sel (List.drop 27 der))) (some sel) with
  | error err => simp [hs] at h
  | ok e =>
  simp only [hs] at h
  cases hsb : toBytesBE 1 sel with
  | error err => simp [hsb] at h
  | ok sb =>
  simp only [hsb] at h
  obtain ⟨rfl, hsel⟩ := toBytesBE_ok hsb
  cases henc : encEncrypt env e sk ephs with
  | error err => simp [henc] at h
  | ok v =>
  obtain ⟨c, e1⟩ := v
  simp only [henc, Except.ok.injEq, Prod.mk.injEq] at h
  obtain ⟨rfl, _⟩ := h
  have hs256 : sel < 256 := by simpa using hsel
  refine ⟨c, ?_, hs256, ?_⟩
  · simp only [toBE, List.nil_append, Nat.mod_eq_of_lt hs256]
  · -- whichever encryptor was selected, an ECC encryption starts with 0x04 (others cannot be selected for kind ecc)
    have hkind : (∃ s p, e = .eccPub s p) ∨ (∃ s p, e = .eccPriv s p) := by
      unfold selectEncryptor at hs
      split at hs
      · rename_i e' hf
        injection hs with hs; subst hs
        have := List.find?_some hf
        simp only [Bool.and_eq_true] at this
        cases e' with
        | eccPub s p => exact Or.inl ⟨s, p, rfl⟩
        | eccPriv s p => exact Or.inr ⟨s, p, rfl⟩
        | custKey k ck pos => simp [isKind] at this
        | csc c => simp [isKind] at this
      · injection hs with hs; subst hs; exact Or.inl ⟨_, _, rfl⟩
    rcases hkind with ⟨s, p, rfl⟩ | ⟨s, p, rfl⟩
    · cases ephs with
      | nil => simp [encEncrypt] at henc
      | cons d rest =>
        simp only [encEncrypt, Except.bind_eq_ok, pure, Except.pure, Except.ok.injEq, Prod.mk.injEq] at henc
        obtain ⟨c', hc', rfl, _⟩ := henc
        obtain ⟨_, _, _, _, _, _, rfl⟩ := ecc_block_format env p d sk c' hc'
        rfl
    · cases ephs with
      | nil => simp [encEncrypt] at henc
      | cons d rest =>
        simp only [encEncrypt, Except.bind_eq_ok, pure, Except.pure, Except.ok.injEq, Prod.mk.injEq] at henc
        obtain ⟨pub, _, c', hc', rfl, _⟩ := henc
        obtain ⟨_, _, _, _, _, _, rfl⟩ := ecc_block_format env pub d sk c' hc'
        rfl

/-- the holder of the recipient's private key recovers exactly the session key, for every private
scalar (edge scalars included: nothing in the proof depends on its value) -/
theorem ecc_decrypt (env : Env) (hC : CryptoInv env.C) (hE : EccLaws env.E) (priv eph : Nat) (pub sk c : Bytes)
    (hpub : env.E.pubOf priv = .ok pub) (hsk : sk.length = 16) (h : eccEncrypt env pub eph sk = .ok c) :
    eccDecrypt env priv c = .ok sk := ecc_roundtrip env hC hE priv eph pub sk c hpub hsk h

/-- the registered ECC plug-in on NIST P-256 satisfies `EccLaws` outright: field prime and group order proved prime by
kernel-checked Lucas certificates, no point with `y = 0` by a kernel-checked certificate in `F_p[x]/(x³+ax+b)`, `n·G = 0`
by evaluation of the model's own multiplication, group law from C17 (`Lemmas/P256Laws.lean`) -/
theorem p256_ecc_laws : EccLaws P256.ecc := P256C.p256_eccLaws

/-- **the shipped configuration, no hypothesis left**: with the bundled AES and the P-256 plug-in, the holder of the
private scalar recovers exactly the session key from every block the writer makes -/
theorem ecc_decrypt_shipped (priv eph : Nat) (pub sk c : Bytes)
    (hpub : P256.pubOf priv = .ok pub) (hsk : sk.length = 16) (h : eccEncrypt P256.env pub eph sk = .ok c) :
    eccDecrypt P256.env priv c = .ok sk :=
  ecc_decrypt P256.env Props.C16.aes_plugin_instance.1 P256C.p256_eccLaws priv eph pub sk c hpub hsk h

/-- without an explicit recipient the block is addressed to the published key of *its own* selector;
an unknown selector is refused (`KeyError`) -/
theorem default_recipient (env : Env) (sel : Nat) (sk : Bytes) (ephs : List Nat) :
    packBlock env (.initEcc sel) sk [] ephs =
      match Gen.DEFAULT_PUBLIC_KEYS.lookup sel with
      | none => .error .keyError
      | some der =>
        toBytesBE 1 sel >>= fun sb =>
        encEncrypt env (.eccPub sel (der.drop 27)) sk ephs >>= fun r => pure (sb ++ r.1, r.2) := by
  simp only [packBlock, selectEncryptor, List.find?_nil]
  cases Gen.DEFAULT_PUBLIC_KEYS.lookup sel <;> simp [bind, Except.bind, pure, Except.pure, throw, throwThe, MonadExceptOf.throw]

/-- the published recipient keys in the source are the pinned published values: the fixed 27-byte
P-256 SubjectPublicKeyInfo header followed by a point that is on the curve and in range -/
theorem published_keys_pinned :
    Gen.DEFAULT_PUBLIC_KEY_SELECTORS = [0, 1, 2, 3] ∧
    Gen.DEFAULT_PUBLIC_KEY_0 = Gen.RAW_DER_HEADER ++
      [0x05,0x7B,0x56,0x5D,0x97,0x6A,0x33,0x06,0xE8,0xBD,0x09,0x4A,0x46,0x71,0x13,0x81,0x98,0x70,0x7D,0x0B,0xB6,0x7C,0x88,0xA4,0x5E,0x8F,0x37,0x5D,0xCB,0x14,0x16,0xC9,
       0x51,0x98,0x84,0xE2,0x10,0x9A,0x02,0x79,0x20,0x72,0xAF,0x23,0x79,0x11,0xA6,0x12,0xEB,0x16,0x21,0x38,0x36,0xE9,0x0F,0xDD,0x42,0x1B,0x47,0x9E,0xBD,0x98,0x15,0x8E] ∧
    Gen.DEFAULT_PUBLIC_KEY_1 = Gen.RAW_DER_HEADER ++
      [0xD7,0xB1,0xB5,0xCB,0xD0,0x58,0x7A,0xE2,0x2E,0x91,0xAE,0xE2,0x29,0xB9,0x53,0x4A,0x92,0x0C,0x90,0x5F,0x58,0x51,0x3C,0xB4,0x39,0x1F,0x8C,0x3F,0x5A,0x1B,0x46,0x4C,
       0xCC,0x05,0x91,0x7E,0x5C,0x59,0xC3,0xAE,0x3E,0x11,0x97,0x99,0x2B,0x2F,0xBB,0x24,0xF3,0x42,0x38,0xD1,0xE4,0xBB,0xC6,0x2D,0xC0,0xDB,0xC8,0xF3,0x69,0x03,0xE9,0x2B] ∧
    Gen.DEFAULT_PUBLIC_KEY_2 = Gen.RAW_DER_HEADER ++
      [0x0C,0xD7,0x31,0xED,0x37,0x30,0xE5,0x3F,0x72,0x44,0xEE,0x71,0xD8,0xD5,0x4F,0x53,0x00,0x88,0x5F,0xF6,0x45,0xEC,0x8F,0xD2,0x7F,0xA3,0xD9,0xD1,0xC4,0x62,0x9F,0xAF,
       0x65,0x36,0xA1,0xF5,0xB4,0x6F,0x0C,0x7C,0xA9,0x23,0xEE,0x28,0x4C,0x11,0x5B,0x9D,0x65,0x14,0xED,0xEF,0x9A,0xA1,0xFD,0xBF,0x1F,0x54,0x03,0x0B,0x49,0xAE,0xF8,0xA6] ∧
    Gen.DEFAULT_PUBLIC_KEY_3 = Gen.RAW_DER_HEADER ++
      [0xB6,0xBC,0x3D,0x31,0x84,0x17,0xAE,0x90,0x99,0xA2,0x28,0xC2,0x9A,0x0D,0xE8,0x5A,0xC0,0x53,0xEA,0xB5,0xB3,0xAA,0x50,0x8B,0xF4,0xA4,0x38,0xBF,0x15,0xFF,0x8B,0x55,
       0x1A,0x04,0x00,0x40,0x51,0x80,0x1A,0x3D,0x08,0xA6,0x05,0x57,0x15,0xC9,0xDF,0xF3,0x8F,0xD2,0xEF,0xAA,0x31,0x1C,0x81,0x54,0xBD,0x9A,0x30,0x25,0x97,0xC8,0x60,0x53] := by
  decide +kernel

theorem header_pinned :
    Gen.RAW_DER_HEADER = [0x30,0x59,0x30,0x13,0x06,0x07,0x2A,0x86,0x48,0xCE,0x3D,0x02,0x01,0x06,0x08,0x2A,0x86,0x48,0xCE,0x3D,0x03,0x01,0x07,0x03,0x42,0x00,0x04] ∧
    Gen.DER_HEADER_LEN = 27 ∧ Gen.RAW_DER_HEADER.length = Gen.DER_HEADER_LEN := by decide

def loadOk (raw : Bytes) : Bool :=
  match P256.loadRaw raw with
  | .ok r => r == raw
  | .error _ => false

theorem loadOk_spec (raw : Bytes) (h : loadOk raw = true) : P256.loadRaw raw = .ok raw := by
  unfold loadOk at h
  split at h
  · rename_i r hr; rw [hr]; congr 1; simpa using h
  · cases h

set_option maxRecDepth 100000 in
theorem published_keys_on_curve_tab :
    loadOk (Gen.DEFAULT_PUBLIC_KEY_0.drop 27) = true ∧ loadOk (Gen.DEFAULT_PUBLIC_KEY_1.drop 27) = true ∧
    loadOk (Gen.DEFAULT_PUBLIC_KEY_2.drop 27) = true ∧ loadOk (Gen.DEFAULT_PUBLIC_KEY_3.drop 27) = true := by
  decide +kernel

/-- each published key is a valid P-256 public point (on the curve, coordinates in range) -/
theorem published_keys_on_curve :
    P256.loadRaw (Gen.DEFAULT_PUBLIC_KEY_0.drop 27) = .ok (Gen.DEFAULT_PUBLIC_KEY_0.drop 27) ∧
    P256.loadRaw (Gen.DEFAULT_PUBLIC_KEY_1.drop 27) = .ok (Gen.DEFAULT_PUBLIC_KEY_1.drop 27) ∧
    P256.loadRaw (Gen.DEFAULT_PUBLIC_KEY_2.drop 27) = .ok (Gen.DEFAULT_PUBLIC_KEY_2.drop 27) ∧
    P256.loadRaw (Gen.DEFAULT_PUBLIC_KEY_3.drop 27) = .ok (Gen.DEFAULT_PUBLIC_KEY_3.drop 27) :=
  let ⟨h0, h1, h2, h3⟩ := published_keys_on_curve_tab
  ⟨loadOk_spec _ h0, loadOk_spec _ h1, loadOk_spec _ h2, loadOk_spec _ h3⟩

/-- unwrapping refuses ephemeral points that are not on the curve or out of range -/
theorem offcurve_rejected (raw : Bytes) (h : P256.loadRaw raw = .ok raw) :
    raw.length = 64 ∧ (fromBE (raw.take 32) : Int) < P256.curve.p ∧ (fromBE (raw.drop 32) : Int) < P256.curve.p ∧
      Ec.containsPoint P256.curve (fromBE (raw.take 32)) (fromBE (raw.drop 32)) = true := by
  unfold P256.loadRaw at h
  split at h
  · cases h
  · rename_i hl
    dsimp only at h
    split at h
    · rename_i hc
      simp only [Bool.and_eq_true, decide_eq_true_eq] at hc
      exact ⟨by simpa using hl, hc.1.1, hc.1.2, hc.2⟩
    · cases h

set_option maxRecDepth 100000 in
theorem loadRaw_ok_eq (raw pub : Bytes) (h : P256.loadRaw raw = .ok pub) : pub = raw := by
  unfold P256.loadRaw at h
  split at h
  · cases h
  · dsimp only at h
    split at h
    · exact (Except.ok.inj h).symm
    · cases h

/-- … and `eccDecrypt` only succeeds after that validation -/
theorem decrypt_validates_point (priv : Nat) (ct sk : Bytes) (h : eccDecrypt P256.env priv ct = .ok sk) :
    ∃ raw rest, ct = [0x04] ++ raw ++ rest ∧ P256.loadRaw raw = .ok raw := by
  simp only [eccDecrypt, Except.bind_eq_ok] at h
  obtain ⟨⟨m, r1⟩, h1, h2⟩ := h
  obtain ⟨rfl, hm⟩ := take_ok h1
  by_cases hne : (m != [0x04]) = true
  · simp [hne, throw, throwThe, MonadExceptOf.throw, bind, Except.bind] at h2
  · have : m = [0x04] := by simpa using hne
    subst this
    simp only [hne, Bool.false_eq_true, if_false, pure, Except.pure, bind, Except.bind] at h2
    cases ht : take 64 r1 with
    | error e => simp [ht] at h2
    | ok v =>
      obtain ⟨raw, r2⟩ := v
      obtain ⟨rfl, _⟩ := take_ok ht
      simp only [ht] at h2
      cases hl : P256.env.E.loadRaw raw with
      | error e => simp [hl] at h2
      | ok pub =>
        have hpub : pub = raw := loadRaw_ok_eq raw pub hl
        subst hpub
        exact ⟨pub, r2, by simp [List.append_assoc], hl⟩

end Bec2Verif.Props.C09
