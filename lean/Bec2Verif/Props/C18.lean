import Bec2Verif.Lemmas.EcdsaSound
import Bec2Verif.Lemmas.EcdsaCodec
import Bec2Verif.Props.C17Group
import Bec2Verif.Lemmas.P256Laws
import Bec2Verif.Lemmas.CertConsequences
/-!
# C18 — ECDSA: signatures verify, range and malformed signatures are rejected, codecs round-trip, RFC 6979 range

The models are `Model/Ecdsa.lean` (`Private_key.sign`, `Public_key.verifies`, digest truncation, the signature
encoders / decoders of `util.py`, `generate_k` of `rfc6979.py` over a parametric hash) on top of the point arithmetic
of C17.  `G p a b` is Mathlib's group of the curve; the scalar side is `ZMod N`.

What is a theorem here: sign→verify for every secret, hash value and nonce; `verifies` = the textbook equation (so a
pair is accepted iff it satisfies ECDSA's verification equation — nothing else is accepted, nothing valid is refused);
validity is invariant under `s ↦ n − s` (the canonical encodings stay valid); out-of-range pairs are `False` /
`BadSignatureError`; undecodable signatures are `BadSignatureError`; string and DER signature encodings round-trip;
RFC 6979 returns `1 ≤ k < n`.

What is not and cannot be a theorem: that flipping one bit of the message or of the signature *always* fails
(it fails except with negligible probability — a statement about SHA-2 and the discrete logarithm, not about this
code), agreement with OpenSSL, and the RFC 6979 test vectors: those are evaluated directly on the real code by the
`prop.c18*` operations against a textbook ECDSA, an independent RFC 6979 and the OpenSSL binary.
-/
namespace Bec2Verif.C18
open Bec2Verif Ec EcC EcF Ecdsa EcdsaC WeierstrassCurve C17

variable {p : ℕ} [Fact p.Prime] {a b : ℤ}

/-- a point of prime order `N`: `k • P = 0 ↔ N ∣ k` -/
theorem order_exact (N : ℕ) (hNp : N.Prime) (P : G p a b) (hNP : (N : ℤ) • P = 0) (hP0 : P ≠ 0) (k : ℤ) :
    k • P = 0 ↔ (N : ℤ) ∣ k := EcdsaC.order_exact N hNp P hNP hP0 k

/-- **signatures verify.**  Domain: curve over the prime field `p` satisfying `CurveOK`, generator `Gp` (affine,
reduced x) of odd prime order `N`.  Whatever the secret, the hash value and the nonce are, a pair returned by `sign` is
accepted by `verifies` under the public point `secret • Gp` — for every representation `Q` of that point with a
reduced X (what `from_string`, `from_der` and `generator * secret` produce). -/
theorem signatures_verify (hc : CurveOK p a b) (d : Domain) (hcp : d.curve.p = p) (hca : d.curve.a = a)
    (N : ℕ) (hN : d.n = (N : ℤ)) (hNp : N.Prime) (hN2 : N ≠ 2)
    (Gp : G p a b) (hG : TRep p a b Gp (d.gx, d.gy, 1)) (hgx : 0 ≤ d.gx ∧ d.gx < (p : ℤ))
    (hNG : (N : ℤ) • Gp = 0) (hG0 : Gp ≠ 0)
    (secret : ℤ) (Q : PJ) (hQ : PRep p a b (secret • Gp) Q.pt) (hQx : XCPt (p : ℤ) Q.pt)
    (hQo : Q.order = 0 ∨ Q.order = d.n) (hQg : Q.gen = false)
    (hash randomK r s : ℤ) (hs : sign d secret hash randomK = .ok (r, s)) :
    verifies d Q hash r s = .ok true :=
  sign_verifies hc d hcp hca N hN hNp hN2 Gp hG hgx (order_exact N hNp Gp hNG hG0) secret Q hQ hQx hQo hQg
    hash randomK r s hs

/-- the same without primality of `N` and for any kind of public-point object, in the weaker form "never rejected":
the only other outcome is the `ValueError` of a failed modular inversion -/
theorem signatures_verify_partial (hc : CurveOK p a b) (d : Domain) (hcp : d.curve.p = p) (hca : d.curve.a = a)
    (N : ℕ) (hN : d.n = (N : ℤ)) (hN0 : 0 < N)
    (Gp : G p a b) (hG : TRep p a b Gp (d.gx, d.gy, 1)) (hgx : 0 ≤ d.gx ∧ d.gx < (p : ℤ))
    (hGord : ∀ k : ℤ, k • Gp = 0 ↔ (N : ℤ) ∣ k)
    (secret : ℤ) (Q : PJ) (hQ : PRep p a b (secret • Gp) Q.pt) (hQx : XCPt (p : ℤ) Q.pt)
    (hQo : Q.order = 0 ∨ Q.order = d.n) (hQg : Q.gen = true → 0 < Q.order)
    (hash randomK r s : ℤ) (hs : sign d secret hash randomK = .ok (r, s)) :
    verifies d Q hash r s = .ok true ∨ verifies d Q hash r s = .error .valueError :=
  sign_verifies_sound hc d hcp hca N hN hN0 Gp hG hgx hGord secret Q hQ hQx hQo hQg hash randomK r s hs

/-- **what is accepted**: exactly the pairs with `1 ≤ r, s ≤ n − 1` for which `(h·s⁻¹)·G + (r·s⁻¹)·Q` is a finite
point whose x-coordinate (canonical representative) is `r` modulo `n` — for *any* point `Q` of the group (`B`),
matching key or not; every other pair gets `False`, never an exception -/
theorem verifies_is_textbook (hc : CurveOK p a b) (d : Domain) (hcp : d.curve.p = p) (hca : d.curve.a = a)
    (N : ℕ) (hN : d.n = (N : ℤ)) (hNp : N.Prime) (hN2 : N ≠ 2)
    (Gp : G p a b) (hG : TRep p a b Gp (d.gx, d.gy, 1)) (hgx : 0 ≤ d.gx ∧ d.gx < (p : ℤ))
    (hNG : (N : ℤ) • Gp = 0) (hG0 : Gp ≠ 0)
    (B : G p a b) (hBo : d.n • B = 0) (Q : PJ) (hQ : PRep p a b B Q.pt)
    (hQx : XCPt (p : ℤ) Q.pt) (hQo : Q.order = 0 ∨ Q.order = d.n) (hQg : Q.gen = false) (hash r s : ℤ) :
    (verifies d Q hash r s = .ok true ↔
      (1 ≤ r ∧ r ≤ d.n - 1) ∧ (1 ≤ s ∧ s ≤ d.n - 1) ∧
      ∃ (c : ℤ) (x' y' : ZMod p) (hns : (W (a : ZMod p) (b : ZMod p)).Nonsingular x' y'),
        (c : ZMod N) * (s : ZMod N) = 1 ∧ (hash * c) • Gp + (r * c) • B = .some x' y' hns ∧
        ((x'.val : ℤ) % d.n = r)) ∧
    (∃ v, verifies d Q hash r s = .ok v) :=
  ⟨verifies_iff hc d hcp hca N hN hNp hN2 Gp hG hgx (order_exact N hNp Gp hNG hG0) B hBo Q hQ hQx hQo hQg hash r s,
   verifies_total hc d hcp hca N hN hNp hN2 Gp hG (order_exact N hNp Gp hNG hG0) B hBo Q hQ hQo hQg hash r s⟩

/-- the canonical-`s` encodings keep a signature valid: `(r, n − s)` is accepted iff `(r, s)` is -/
theorem canonical_s_equivalent (hc : CurveOK p a b) (d : Domain) (hcp : d.curve.p = p) (hca : d.curve.a = a)
    (N : ℕ) (hN : d.n = (N : ℤ)) (hNp : N.Prime) (hN2 : N ≠ 2)
    (Gp : G p a b) (hG : TRep p a b Gp (d.gx, d.gy, 1)) (hgx : 0 ≤ d.gx ∧ d.gx < (p : ℤ))
    (hNG : (N : ℤ) • Gp = 0) (hG0 : Gp ≠ 0)
    (B : G p a b) (hBo : d.n • B = 0) (Q : PJ) (hQ : PRep p a b B Q.pt)
    (hQx : XCPt (p : ℤ) Q.pt) (hQo : Q.order = 0 ∨ Q.order = d.n) (hQg : Q.gen = false) (hash r s : ℤ) :
    verifies d Q hash r (d.n - s) = .ok true ↔ verifies d Q hash r s = .ok true :=
  verifies_neg_s hc d hcp hca N hN hNp hN2 Gp hG hgx (order_exact N hNp Gp hNG hG0) B hBo Q hQ hQx hQo hQg hash r s

/-- **out-of-range pairs** (`r` or `s` ≤ 0 or ≥ n: 0, n, n+1, 2^k …) are rejected — on any domain, with any key -/
theorem out_of_range_rejected (d : Domain) (Q : PJ) (hash r s : ℤ)
    (h : r < 1 ∨ r > d.n - 1 ∨ s < 1 ∨ s > d.n - 1) : verifies d Q hash r s = .ok false :=
  verifies_range d Q hash r s h

/-- … and at the `verify_digest` level that is `BadSignatureError` -/
theorem out_of_range_is_bad_signature (d : Domain) (Q : PJ) (baselen : Nat) (sig digest : Bytes) (derEnc allow : Bool)
    (number : Nat) (hd : truncateDigest digest baselen d.n.toNat allow = .ok number) (r s : Nat)
    (hsig : (if derEnc then sigdecodeDer sig else sigdecodeString sig d.n.toNat) = .ok (r, s))
    (h : (r : Int) < 1 ∨ (r : Int) > d.n - 1 ∨ (s : Int) < 1 ∨ (s : Int) > d.n - 1) :
    verifyDigest d Q baselen sig digest derEnc allow = .error .badSignature :=
  verifyDigest_range d Q baselen sig digest derEnc allow number hd r s hsig h

/-- **malformed signatures**: whatever error the decoder raises, `verify_digest` raises `BadSignatureError` -/
theorem malformed_is_bad_signature (d : Domain) (Q : PJ) (baselen : Nat) (sig digest : Bytes) (derEnc allow : Bool)
    (number : Nat) (hd : truncateDigest digest baselen d.n.toNat allow = .ok number) (e : Err)
    (hsig : (if derEnc then sigdecodeDer sig else sigdecodeString sig d.n.toNat) = .error e) :
    verifyDigest d Q baselen sig digest derEnc allow = .error .badSignature :=
  verifyDigest_malformed d Q baselen sig digest derEnc allow number hd e hsig

/-- a raw signature of the wrong length is malformed -/
theorem string_signature_length (sig : Bytes) (order : Nat) (h : sig.length ≠ 2 * PointCodec.orderlen order) :
    sigdecodeString sig order = .error .malformedSignature := sigdecodeString_length sig order h

/-- **encodings round-trip**: raw `r ‖ s` … -/
theorem string_signature_roundtrip (r s order : Nat) (sig : Bytes) (h : sigencodeString r s order = .ok sig) :
    sigdecodeString sig order = .ok (r, s) := sigdecodeString_encode r s order sig h

theorem string_signature_encodes (r s order : Nat) (hr : r < 256 ^ PointCodec.orderlen order)
    (hs : s < 256 ^ PointCodec.orderlen order) : ∃ sig, sigencodeString r s order = .ok sig :=
  ⟨_, sigencodeString_ok r s order hr hs⟩

/-- … and DER `SEQUENCE { INTEGER r, INTEGER s }` (numbers below 2^1000) -/
theorem der_signature_roundtrip (r s : Nat) (hr : (Der.beBytes r).length + 1 < 128) (hs : (Der.beBytes s).length + 1 < 128)
    (hl : Der.Encodable (Der.encodeInteger r ++ Der.encodeInteger s).length) :
    sigdecodeDer (sigencodeDer r s) = .ok (r, s) := sigdecodeDer_encode r s hr hs hl

/-- canonical `s`: at most `n/2`, still in range, idempotent -/
theorem canonical_s (s order : Nat) (h1 : 1 ≤ s) (h2 : s < order) :
    2 * canonS s order ≤ order ∧ (1 ≤ canonS s order ∧ canonS s order < order) ∧
    canonS (canonS s order) order = canonS s order :=
  ⟨canonS_le s order (by omega), canonS_range s order h1 h2, canonS_idem s order (by omega)⟩

/-- **RFC 6979**: the derived nonce is in `[1, n)`, for every hash function, key, digest, retry count and extra
entropy (equality with the RFC's vectors and with OpenSSL's deterministic mode is evaluated on the real code) -/
theorem rfc6979_nonce_in_range (H : Hash) (order secexp : Nat) (data : Bytes) (retry : Nat) (extra : Bytes) (k : Nat)
    (h : generateK H order secexp data retry extra = .ok k) : 1 ≤ k ∧ k < order :=
  generateK_range H order secexp data retry extra k h

/-! ### the hypotheses are satisfiable, the conclusions are not vacuous

`y² = x³ − 3x + 8` over `F₂₃`: 31 points (prime), generator `(0, 10)`. -/

def d23 : Domain := { curve := { p := 23, a := -3, b := 8 }, gx := 0, gy := 10, n := 31, h := 1 }

theorem ns23 : (W ((-3 : ℤ) : ZMod 23) ((8 : ℤ) : ZMod 23)).Nonsingular 0 10 := by
  rw [Affine.nonsingular_iff']
  refine ⟨by rw [W_equation]; decide, Or.inr ?_⟩
  simp only [W]; decide

def G23 : G 23 (-3) 8 := .some 0 10 ns23

theorem trep23 : TRep 23 (-3) 8 G23 (d23.gx, d23.gy, 1) := by
  refine ⟨?_, wfz_one, ?_⟩
  · intro _; revert ‹_›; simp [d23]; decide
  · show Aff _ _ _
    refine ⟨by simp [cst], ?_, ?_⟩ <;> simp [cst, d23]

theorem ord23 : (31 : ℤ) • G23 = 0 := by
  have h : mulNaf d23.curve 0 (.jac 0 10 1) 31 = some .inf := by decide +kernel
  have := mulNaf_rep curveOK_23 d23.curve rfl rfl 0 (pt := .jac 0 10 1) trep23 (fun h => absurd rfl h) 31 h
  exact this

/-- every hypothesis of `signatures_verify` discharged on this domain: for EVERY secret, hash value and nonce, with
the public point computed by the library's own `generator * secret`, the signature verifies -/
theorem ecdsa23_end_to_end (secret hash randomK r s X Y Z : ℤ)
    (hpub : pjMul d23.curve d23.G secret = some (.jac X Y Z))
    (hs : sign d23 secret hash randomK = .ok (r, s)) :
    verifies d23 { X := X, Y := Y, Z := Z, order := 31, gen := false } hash r s = .ok true := by
  have hG : PRep 23 (-3) 8 G23 d23.G.pt := trep23
  have hrep := pjMul_rep curveOK_23 d23.curve rfl rfl d23.G hG (fun _ => ord23) (fun _ => by decide) secret hpub
  have hxc := pjMul_xc d23.curve (by decide) d23.G (by show XC 23 (0, 10, 1); exact ⟨by decide, by decide⟩) secret _ hpub
  exact signatures_verify curveOK_23 d23 rfl rfl 31 rfl (by decide) (by decide) G23 trep23 ⟨by decide, by decide⟩
    ord23 (by intro h; cases h) secret { X := X, Y := Y, Z := Z, order := 31, gen := false } hrep hxc (Or.inr rfl) rfl
    hash randomK r s hs

/-! ### NIST P-256, the curve of the BEC2 plug-in: every hypothesis is a theorem -/

/-- the P-256 domain as found in the current source (`Gen/Curves.lean`, regenerated on every run) -/
def d256 : Domain := { curve := P256.curve, gx := P256C.gX, gy := P256C.gY, n := (P256C.N : ℤ), h := 1 }

/-- **ECDSA on NIST P-256, end to end**: for every secret, hash value and nonce, with the public point computed by the
library's own `generator * secret`, a signature returned by `sign` verifies.  Nothing is assumed: the field prime and
the group order are proved prime (Lucas certificates), the curve has no point with `y = 0` (certificate), `n·G = 0`
(kernel evaluation of the model), and the point arithmetic is the group law (C17). -/
theorem ecdsa_p256_end_to_end (secret hash randomK r s X Y Z : ℤ)
    (hpub : pjMul d256.curve d256.G secret = some (.jac X Y Z))
    (hs : sign d256 secret hash randomK = .ok (r, s)) :
    verifies d256 { X := X, Y := Y, Z := Z, order := (P256C.N : ℤ), gen := false } hash r s = .ok true := by
  have hG : PRep P256C.P P256C.cA P256C.cB P256C.Gp d256.G.pt := P256C.g_trep
  have hrep := pjMul_rep P256C.cOK d256.curve P256C.curve_p P256C.curve_a d256.G hG (fun _ => P256C.g_order)
    (fun _ => by decide +kernel) secret hpub
  have hxc := pjMul_xc d256.curve P256C.hpp d256.G P256C.g_xc secret _ hpub
  have hxc' : XCPt (P256C.P : ℤ) (.jac X Y Z) := by rw [← P256C.curve_p]; exact hxc
  have hgx : 0 ≤ d256.gx ∧ d256.gx < (P256C.P : ℤ) := by
    have := P256C.g_xc
    rw [P256C.curve_p] at this
    exact this
  exact signatures_verify P256C.cOK d256 P256C.curve_p P256C.curve_a P256C.N rfl P256C.n_prime (by decide) P256C.Gp
    P256C.g_trep hgx P256C.g_order P256C.g_ne secret { X := X, Y := Y, Z := Z, order := (P256C.N : ℤ), gen := false }
    hrep hxc' (Or.inr rfl) rfl hash randomK r s hs

/-! ### the named curves whose order is certified prime -/

theorem order_certified_names : Cert.orderCertified.map (·.name) =
    ["NIST192p", "NIST224p", "NIST256p", "SECP256k1", "BRAINPOOLP160r1", "BRAINPOOLP224r1", "BRAINPOOLP256r1",
     "SECP112r1", "SECP128r1", "SECP160r1"] := by decide

/-- **ECDSA end to end on ten named curves, nothing assumed**: for every secret, hash value and nonce, a signature
returned by `sign` verifies under the public point the library derives from the secret (`Lemmas/CurveCerts.lean`:
Lucas certificates for `p` and `n`, root-freeness certificate, `n·G = 0` by kernel evaluation) -/
theorem ecdsa_on_certified_curves (r : Gen.CurveRec) (hr : r ∈ Cert.orderCertified)
    (secret hash randomK rr ss X Y Z : ℤ)
    (hpub : pjMul (Cert.curveOf r) (Cert.genOf r) secret = some (.jac X Y Z))
    (hs : sign (Cert.domOf r) secret hash randomK = .ok (rr, ss)) :
    verifies (Cert.domOf r) { X := X, Y := Y, Z := Z, order := r.n, gen := false } hash rr ss = .ok true :=
  Cert.ecdsa_certified r (Cert.orderCertified_ok r hr).1 (Cert.orderCertified_ok r hr).2 secret hash randomK rr ss X Y Z
    hpub hs

/-- a concrete signature (`secret = 7`, `hash = 5`, nonce 3) and its verification, by evaluation of the model … -/
example : sign d23 7 5 3 = .ok (3, 19) := by decide +kernel

/-- … which the theorem predicts -/
example : verifies d23 { X := 7, Y := 10, Z := 1, order := 31, gen := false } 5 3 19 = .ok true ∧
    verifies d23 { X := 21, Y := 20, Z := 16, order := 31, gen := false } 5 3 19 = .ok true ∧
    verifies d23 { X := 7, Y := 10, Z := 1, order := 0, gen := false } 5 3 (31 - 19) = .ok true ∧
    verifies d23 { X := 7, Y := 10, Z := 1, order := 0, gen := false } 6 3 19 = .ok false := by decide +kernel

example : (Der.beBytes 115792089210356248762697446949407573529996955224135760342422259061068512044368).length + 1 < 128 := by
  decide +kernel

end Bec2Verif.C18
