import Bec2Verif.Model.EcOps
/-! # C18 — signatures (theorems follow) -/
namespace Bec2Verif.C18
theorem placeholder : True := trivial
end Bec2Verif.C18
