import Bec2Verif.Lemmas.Bec2
import Bec2Verif.Props.C01
import Bec2Verif.Props.C16
import Bec2Verif.Lemmas.P256Laws
/-!
# C02 — BEC2 write-then-read recovers key, auth blocks and content for every key

Hypotheses, each discharged elsewhere or named in the trusted base:
* `CryptoInv C` — the plug-in inverts its own zero-padded encryption (for the bundled adapter:
  `adapter_cryptoInv`, from `BlockInv aesCipher`, C16);
* `EccLaws E` — ECDH is symmetric and generated public keys load (for python-ecdsa on P-256: C17);
* `MacLen C` — the MAC is 16 bytes (`aes_macLen`, proved).
Session keys range over all 16-byte strings, payloads over all byte strings: in particular keys
ending in 0x00 and frames whose CRC bytes are 0x00 are covered by the same proof.
-/
namespace Bec2Verif.Props.C02
open Bec2Verif Bec2Verif.Bf3 Bec2Verif.Bec2

/-- ECIES block: the holder of the private key recovers exactly the session key -/
theorem ecc_unpack_pack (env : Env) (hC : CryptoInv env.C) (hE : EccLaws env.E) (priv eph : Nat) (pub sk c : Bytes)
    (hpub : env.E.pubOf priv = .ok pub) (hsk : sk.length = 16) (h : eccEncrypt env pub eph sk = .ok c) :
    eccDecrypt env priv c = .ok sk := ecc_roundtrip env hC hE priv eph pub sk c hpub hsk h

/-- every kind of auth block (customer key absent / present in its slot, ECC with any selector < 256,
update with any security code and version < 256) unpacks to itself and the session key -/
theorem block_unpack_pack (env : Env) (hC : CryptoInv env.C) (hE : EccLaws env.E) (blk : AuthBlock) (sk : Bytes)
    (ext : List Encryptor) (ephs ephs' : List Nat) (raw : Bytes) (hsk : sk.length = 16) (hopen : Opens ext blk)
    (h : packBlock env blk sk ext ephs = .ok (raw, ephs')) : unpackBlock env blk.tag raw ext = .ok (blk, sk) :=
  unpack_pack_block env hC hE blk sk ext ephs ephs' raw hsk hopen h

/-- the whole header, any ordered list of blocks the decryptors can open -/
theorem header_unpack_pack (env : Env) (hC : CryptoInv env.C) (hE : EccLaws env.E) (sk : Bytes) (ext : List Encryptor)
    (blocks : List AuthBlock) (ephs ephs' : List Nat) (packed rest : Bytes)
    (hsk : sk.length = 16) (hne : blocks ≠ []) (hopen : ∀ b ∈ blocks, Opens ext b)
    (h : packBlocks env sk ext blocks ephs = .ok (packed, ephs')) :
    unpackBlocks env ext (packed.length + 1) (packed ++ rest) [] none 0 = .ok (blocks, some sk, rest, packed.length) := by
  have := unpack_pack_blocks env hC hE sk ext blocks ephs ephs' packed rest [] none 0 (packed.length + 1) hsk hopen
    (Or.inl rfl) h (by have := packBlocks_len_ge env sk ext blocks ephs ephs' packed h; omega)
  simpa [hne] using this

/-- **the file**: same session key, same auth blocks, components as `readBackAll` describes -/
theorem bec2_read_write (env : Env) (hC : CryptoInv env.C) (hE : EccLaws env.E) (hm : MacLen env.C)
    (f : File) (ext : List Encryptor) (ephs ephs' : List Nat) (out : Bytes) (chk : Bool)
    (hsk : f.key.length = 16) (hne : f.blocks ≠ []) (hopen : ∀ b ∈ f.blocks, Opens ext b)
    (hnd : (f.blocks.map AuthBlock.tag).Nodup) (hok : ∀ c ∈ f.comps, CompOK env.C f.key c)
    (h : Bec2.toBinary env f ext ephs = .ok (out, ephs')) (ρ : Bytes) :
    Bec2.readBinary env ext chk out ρ =
      (readBackAll env.C f.key f.comps).map (fun cs => { comps := cs, blocks := f.blocks, key := f.key }) :=
  readBinary_toBinary env hC hE hm f ext ephs ephs' out chk hsk hne hopen hnd hok h ρ

/-- with plain components only the file object is returned unchanged -/
theorem bec2_read_write_plain (env : Env) (hC : CryptoInv env.C) (hE : EccLaws env.E) (hm : MacLen env.C)
    (f : File) (ext : List Encryptor) (ephs ephs' : List Nat) (out : Bytes) (chk : Bool)
    (hsk : f.key.length = 16) (hne : f.blocks ≠ []) (hopen : ∀ b ∈ f.blocks, Opens ext b)
    (hnd : (f.blocks.map AuthBlock.tag).Nodup) (hpl : ∀ c ∈ f.comps, Props.C01.PlainWF c)
    (h : Bec2.toBinary env f ext ephs = .ok (out, ephs')) (ρ : Bytes) :
    Bec2.readBinary env ext chk out ρ = .ok f := by
  rw [bec2_read_write env hC hE hm f ext ephs ephs' out chk hsk hne hopen hnd
    (fun c hc => Props.C01.plain_compOK env.C f.key c (hpl c hc)) h ρ,
    Props.C01.readBackAll_plain env.C f.key f.comps hpl]
  rfl

/-- the bundled adapter over an invertible block cipher meets `CryptoInv` and `MacLen` -/
theorem adapter_instance (B : BlockCipher) (hB : BlockInv B) :
    CryptoInv (Adapter.crypto B) ∧ MacLen (Adapter.crypto B) :=
  ⟨adapter_cryptoInv B hB, adapter_macLen B hB.encLen⟩

/-- the file theorem for the bundled AES plug-in: no hypothesis about the cipher is left (C16 `aes_plugin_instance`);
`EccLaws` remains for the ECC blocks -/
theorem bec2_read_write_aes (E : Ecc) (hE : EccLaws E) (sha : Bytes → Bytes)
    (f : File) (ext : List Encryptor) (ephs ephs' : List Nat) (out : Bytes) (chk : Bool)
    (hsk : f.key.length = 16) (hne : f.blocks ≠ []) (hopen : ∀ b ∈ f.blocks, Opens ext b)
    (hnd : (f.blocks.map AuthBlock.tag).Nodup) (hok : ∀ c ∈ f.comps, CompOK aesCrypto f.key c)
    (h : Bec2.toBinary { C := aesCrypto, E := E, sha := sha } f ext ephs = .ok (out, ephs')) (ρ : Bytes) :
    Bec2.readBinary { C := aesCrypto, E := E, sha := sha } ext chk out ρ =
      (readBackAll aesCrypto f.key f.comps).map (fun cs => { comps := cs, blocks := f.blocks, key := f.key }) :=
  bec2_read_write { C := aesCrypto, E := E, sha := sha } Props.C16.aes_plugin_instance.1 hE
    Props.C16.aes_plugin_instance.2 f ext ephs ephs' out chk hsk hne hopen hnd hok h ρ

/-- **the shipped configuration** (bundled AES, ECC plug-in on P-256, SHA-256): the file theorem with every named
hypothesis discharged -/
theorem bec2_read_write_shipped
    (f : File) (ext : List Encryptor) (ephs ephs' : List Nat) (out : Bytes) (chk : Bool)
    (hsk : f.key.length = 16) (hne : f.blocks ≠ []) (hopen : ∀ b ∈ f.blocks, Opens ext b)
    (hnd : (f.blocks.map AuthBlock.tag).Nodup) (hok : ∀ c ∈ f.comps, CompOK P256.env.C f.key c)
    (h : Bec2.toBinary P256.env f ext ephs = .ok (out, ephs')) (ρ : Bytes) :
    Bec2.readBinary P256.env ext chk out ρ =
      (readBackAll P256.env.C f.key f.comps).map (fun cs => { comps := cs, blocks := f.blocks, key := f.key }) :=
  bec2_read_write P256.env Props.C16.aes_plugin_instance.1 P256C.p256_eccLaws Props.C16.aes_plugin_instance.2
    f ext ephs ephs' out chk hsk hne hopen hnd hok h ρ

/-- **`Bec2File.read_file ∘ write_file = id` for the shipped configuration, text envelope included**: comments, session
key, auth blocks and plain components come back unchanged -/
theorem bec2_readFile_writeFile_shipped (cs : List (Text.Str × Text.Str)) (hcs : Text.CommentsWF cs)
    (f : File) (ext : List Encryptor) (ephs ephs' : List Nat) (out : Bytes) (chk : Bool)
    (hsk : f.key.length = 16) (hne : f.blocks ≠ []) (hopen : ∀ b ∈ f.blocks, Opens ext b)
    (hnd : (f.blocks.map AuthBlock.tag).Nodup) (hpl : ∀ c ∈ f.comps, Props.C01.PlainWF c)
    (h : Bec2.toBinary P256.env f ext ephs = .ok (out, ephs')) (ρ : Bytes) :
    Entry.readBec2 P256.env ext chk (Text.writeText cs out) ρ = .ok (cs, f) := by
  unfold Entry.readBec2
  rw [Text.parseText_writeText cs out hcs]
  simp only [bind, Except.bind]
  rw [bec2_read_write_plain P256.env Props.C16.aes_plugin_instance.1 P256C.p256_eccLaws Props.C16.aes_plugin_instance.2
    f ext ephs ephs' out chk hsk hne hopen hnd hpl h ρ]

/-- non-vacuity: a decryptor list that opens a customer-key, an ECC (selector 2) and an update block -/
example : ∀ b ∈ [AuthBlock.initCust, .initEcc 2, .update [1,2,3,4,5,6,7,8] 255],
    Opens [.csc [1,2,3,4,5,6,7,8], .eccPriv 2 5, .custKey (List.replicate 16 7) [] 0] b := by
  intro b hb
  simp only [List.mem_cons, List.mem_nil_iff, or_false] at hb
  rcases hb with rfl | rfl | rfl
  · exact ⟨_, _, _, rfl, Or.inl rfl⟩
  · exact ⟨by decide, 5, rfl⟩
  · exact ⟨by decide, rfl⟩

end Bec2Verif.Props.C02
