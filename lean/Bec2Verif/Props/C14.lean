import Bec2Verif.Lemmas.TotalBec2
import Bec2Verif.Lemmas.TotalBf2
import Bec2Verif.Model.Entry
/-!
# C14 — parsers fail only with format errors and always terminate

Every parsing entry point of the model (`Model/Entry.lean`: exactly the functions the driver's `bf3.readtext`,
`bec2.readtext`, `bf2.import`, `cfgid.parse` and `pfid2` ops evaluate) is a total Lean function - it terminates on
every input - and `Total r` says: if `r` is an error, its class is one C14 permits (`Err.allowed`: the library's
format errors, `ValueError` and its subclass `UnicodeDecodeError`).  The model's own marker `outOfFuel` (a
fuel-bounded loop ran out of fuel) is *not* permitted, so the theorems also show that the fuel given to the
comment loop, the directory loop and the auth-block loop always suffices.

Library-global state: the model is pure; that `bec2format.crypto`'s globals are untouched is observed by the harness.
-/
namespace Bec2Verif.C14
open Bec2Verif

/-- the classes the property names as forbidden are not permitted, nor is the model's fuel marker -/
theorem forbidden_not_allowed :
    Err.indexError.allowed = false ∧ Err.keyError.allowed = false ∧ Err.typeError.allowed = false ∧
    Err.overflowError.allowed = false ∧ Err.assertionError.allowed = false ∧ Err.bareException.allowed = false ∧
    Err.notImplemented.allowed = false ∧ Err.malformedPoint.allowed = false ∧ Err.attributeError.allowed = false ∧
    Err.unexpectedDER.allowed = false ∧ Err.invalidSharedSecret.allowed = false ∧ Err.outOfFuel.allowed = false := by
  decide

/-- BF3 reader, for every registered crypto plug-in whose own errors are permitted classes -/
theorem readBf3_total (C : Crypto) (hC : Bf3.CryptoTotal C) (chk : Bool) (key : Bytes) (text : Text.Str) :
    Total (Entry.readBf3 C chk key text) := by
  unfold Entry.readBf3
  refine Errs.bind (Text.parseText_total text) ?_
  intro r _
  exact Errs.bind (Bf3.readBinary_total C hC _ _ _) (fun _ _ => Errs.ok _)

/-- … in particular with the bundled AES adapter (after the repair of its bare `Exception`) -/
theorem readBf3_total_aes (chk : Bool) (key : Bytes) (text : Text.Str) :
    Total (Entry.readBf3 aesCrypto chk key text) := readBf3_total aesCrypto aes_cryptoTotal chk key text

/-- BEC2 reader with any list of decryptors -/
theorem readBec2_total (env : Bec2.Env) (hC : Bf3.CryptoTotal env.C) (ext : List Bec2.Encryptor)
    (hE : Bec2.EccTotal env.E ext) (chk : Bool) (text : Text.Str) (ρ : Bytes) :
    Total (Entry.readBec2 env ext chk text ρ) := by
  unfold Entry.readBec2
  refine Errs.bind (Text.parseText_total text) ?_
  intro r _
  exact Errs.bind (Bec2.readBinary_total env hC ext hE _ _ ρ) (fun _ _ => Errs.ok _)

/-- what is left open for the bundled P-256 plug-in: python-ecdsa's `InvalidSharedSecretError` needs `d·Q = ∞` for a
validated point `Q`, i.e. `n ∣ d`; that no decryptor's private scalar does this is the group law (C17) -/
def NoInfiniteSecret (ext : List Bec2.Encryptor) : Prop :=
  ∀ s d, Bec2.Encryptor.eccPriv s d ∈ ext → ∀ pub, P256.dh d pub ≠ .error .invalidSharedSecret

theorem p256_eccTotal (ext : List Bec2.Encryptor) (h : NoInfiniteSecret ext) : Bec2.EccTotal P256.ecc ext := by
  refine ⟨P256.loadRaw_total, ?_⟩
  intro s d hd pub
  refine ⟨?_⟩
  intro e he
  rcases (P256.dh_errs d pub).out e he with h1 | h1
  · subst h1; rfl
  · subst h1; exact absurd he (h s d hd pub)

theorem readBec2_total_p256 (ext : List Bec2.Encryptor) (h : NoInfiniteSecret ext) (chk : Bool) (text : Text.Str)
    (ρ : Bytes) : Total (Entry.readBec2 P256.env ext chk text ρ) :=
  readBec2_total P256.env aes_cryptoTotal ext (p256_eccTotal ext h) chk text ρ

/-- without private ECC keys on offer (none, public-only, customer-key, security-code decryptors) nothing is left open -/
theorem readBec2_total_p256_noPriv (ext : List Bec2.Encryptor) (h : ∀ s d, Bec2.Encryptor.eccPriv s d ∉ ext)
    (chk : Bool) (text : Text.Str) (ρ : Bytes) : Total (Entry.readBec2 P256.env ext chk text ρ) :=
  readBec2_total_p256 ext (fun s d hd => absurd hd (h s d)) chk text ρ

example : ∀ s d, Bec2.Encryptor.eccPriv s d ∉
    [Bec2.Encryptor.eccPub 0 [], Bec2.Encryptor.csc [1, 2], Bec2.Encryptor.custKey [] [] 0] := by
  intro s d h; simp at h

/-- BF2 importer -/
theorem importBf2_total (text : Text.Str) (enforce : Bool) : Total (Entry.importBf2 text enforce) :=
  Bf2.bf2Import_total text enforce

/-- configuration-identifier parser -/
theorem parseConfigId_total (s : Text.Str) : Total (Entry.parseConfigId s) := ConfigId.fromStr_total s

/-- platform-filter formatter -/
theorem formatFilter_total (f : Bytes) : Total (Entry.formatFilter f) := Bf2.pfid2FilterToStr_total f

/-- the file iteration of the BF2 importer sees the whole text: the fuel of `linesOf` never truncates -/
theorem linesOf_covers (fuel : Nat) (s : Text.Str) (h : s.length < fuel) : (Bf2.linesOf fuel s).flatten = s := by
  induction fuel generalizing s with
  | zero => omega
  | succ f ih =>
    unfold Bf2.linesOf
    cases hs : s with
    | nil => simp
    | cons c r =>
      have hl := (Text.readLine_len (c :: r)).2 (by simp)
      have happ : ∀ t : Text.Str, (Text.readLine t).1 ++ (Text.readLine t).2 = t := by
        intro t
        induction t with
        | nil => simp [Text.readLine]
        | cons x xs ih2 =>
          unfold Text.readLine
          split
          · simp_all
          · simp only [List.cons_append, ih2]
      simp only [List.isEmpty_cons, Bool.false_eq_true, if_false, List.flatten_cons]
      rw [ih _ (by subst hs; simp only [List.length_cons] at h hl; omega)]
      exact happ _

end Bec2Verif.C14
