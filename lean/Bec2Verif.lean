import Bec2Verif.Props.C15
import Bec2Verif.Props.C01
import Bec2Verif.Props.C08
import Bec2Verif.Props.C16
import Bec2Verif.Props.C05
import Bec2Verif.Props.C03
import Bec2Verif.Props.C04
