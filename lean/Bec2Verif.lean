import Bec2Verif.Props.C15
