import Driver.OpsBec2
import Bec2Verif.Model.Tlv
open Bec2Verif Driver ConfigId Tlv
namespace Driver

/-- dict := `-` | item,item… ; item := `key:value:content`, value = number | `n`, content = hex | `n` -/
def parseDict (s : String) : Option ConfDict :=
  if s == "-" then some [] else
  (s.splitOn ",").mapM fun item =>
    match item.splitOn ":" with
    | [k, v, c] => do
      let kn ← k.toNat?
      let vo ← if v == "n" then some none else v.toNat?.map some
      let co ← if c == "n" then some none else (parseHex c).map some
      pure ((kn, vo), co)
    | _ => none

def parseBlocksList (s : String) : Option (List Bytes) :=
  if s == "-" then some [] else (s.splitOn ",").mapM parseHex

def showBlocksList (bs : List Bytes) : String :=
  if bs.isEmpty then "-" else ",".intercalate (bs.map (fun b => if b.isEmpty then "e" else toHex b))

def opTlv : List String → String
  | [d] => match parseDict d with
    | some dict => (match confDictToTlv dict with
      | .ok bs => "ok " ++ showBlocksList bs
      | .error e => "err " ++ e.name)
    | none => "bad-op"
  | _ => "bad-op"

def opSetCfg : List String → String
  | [cs, d, ex] => match parseComps cs, parseDict d, parseBlocksList ex with
    | some comps, some dict, some extra => resComps (setConfig comps dict extra)
    | _, _, _ => "bad-op"
  | _ => "bad-op"

def showOptNat : Option Nat → String
  | some n => toString n
  | none => "n"

def showOptStr : Option Text.Str → String
  | some s => showStr s
  | none => "n"

def showId (i : Id) : String :=
  showOptNat i.customer ++ "," ++ showOptNat i.project ++ "," ++ showOptNat i.device ++ "," ++ toString i.version ++ ","
    ++ showOptStr i.name

def parseOptNat (s : String) : Option (Option Nat) := if s == "n" then some none else s.toNat?.map some

def parseId (s : String) : Option Id :=
  match s.splitOn "," with
  | [c, p, d, v, n] => do
    let co ← parseOptNat c
    let po ← parseOptNat p
    let dv ← parseOptNat d
    let vn ← v.toNat?
    let nm ← if n == "n" then some none else (parseStr n).map some
    -- constructed through `ConfigId(...)`: the 9999 mapping applies
    pure (ConfigId.mk co po dv vn nm)
  | _ => none

def resId : Except Err Id → String
  | .ok i => "ok " ++ showId i
  | .error e => "err " ++ e.name

def opCfgId (dev : Bool) : List String → String
  | [d] => match parseDict d with
    | some dict => resId (if dev then fromDev dict else fromPrj dict)
    | none => "bad-op"
  | _ => "bad-op"

def opCfgStr : List String → String
  | [i] => match parseId i with
    | some id => "ok " ++ showStr (toStr id)
    | none => "bad-op"
  | _ => "bad-op"

def opCfgParse : List String → String
  | [t] => match parseStr t with
    | some s => resId (Entry.parseConfigId s)
    | none => "bad-op"
  | _ => "bad-op"

structure HState where
  comments : List (Text.Str × Text.Str)
  comps : List Bf3.Comp
  blocks : List Bec2.AuthBlock

def showH (h : HState) : String := showComments h.comments ++ "!" ++ showComps h.comps ++ "!" ++ showBlocks h.blocks

def insertAt {α : Type} (l : List α) (i : Nat) (x : α) : List α := l.take i ++ [x] ++ l.drop i

def hStep (h : HState) (toks : List String) : HState × String :=
  match toks with
  | ["setcfg", d, ex] =>
    match parseDict d, parseBlocksList ex with
    | some dict, some extra =>
      (match setConfig h.comps dict extra with
      | .ok cs => let h' := { h with comps := cs }; (h', showH h')
      | .error e => let h' := { h with comps := removeFirstConfig h.comps }; (h', "err:" ++ e.name))
    | _, _ => (h, "bad")
  | ["derivec", d] =>
    match parseDict d with
    | some dict => (match deriveComments h.comments dict with
      | .ok cm => let h' := { h with comments := cm }; (h', showH h')
      | .error e =>
        -- the project-settings comment was already set / popped when the device-settings identifier raised
        let cm1 := match fromPrj dict with
          | .ok i => dictSetS h.comments "Configuration".toList (toStr i)
          | .error .missingPrjName => dictPop h.comments "Configuration".toList
          | .error _ => h.comments
        ({ h with comments := cm1 }, "err:" ++ e.name))
    | none => (h, "bad")
  | ["derivea", d, mode] =>
    match parseDict d with
    | some dict => (match deriveAuth h.blocks dict (mode == "1") with
      | .ok bs => let h' := { h with blocks := bs }; (h', showH h')
      | .error e =>
        -- the initial block was added before the identifier was computed
        let h' := { h with blocks := addBlock h.blocks (if mode == "1" then .initCust else .initEcc 0) }
        (h', "err:" ++ e.name))
    | none => (h, "bad")
  | ["append", c] =>
    match parseComp c with
    | some comp => let h' := { h with comps := h.comps ++ [comp] }; (h', showH h')
    | none => (h, "bad")
  | ["insert", i, c] =>
    match i.toNat?, parseComp c with
    | some n, some comp => let h' := { h with comps := insertAt h.comps n comp }; (h', showH h')
    | _, _ => (h, "bad")
  | _ => (h, "bad")

/-- hist <comments> <comps> <blocks> <op>/<op>/…   (op tokens separated by `!`) -/
def opHist : List String → String
  | [cm, cs, bs, ops] =>
    match parseComments cm, parseComps cs, parseBlocks bs with
    | some comments, some comps, some blocks =>
      let h0 : HState := { comments := comments, comps := comps, blocks := blocks }
      let (_, outs) := (ops.splitOn "/").foldl (fun (acc : HState × List String) s =>
        let (h', o) := hStep acc.1 (s.splitOn "!")
        (h', acc.2 ++ [o])) (h0, [])
      if outs.contains "bad" then "bad-op" else "ok " ++ "/".intercalate outs
    | _, _, _ => "bad-op"
  | _ => "bad-op"

def cfgOps : List (String × (List String → String)) :=
  [("tlv", opTlv), ("setcfg", opSetCfg), ("cfgid.prj", opCfgId false), ("cfgid.dev", opCfgId true),
   ("cfgid.str", opCfgStr), ("cfgid.parse", opCfgParse), ("hist", opHist)]

end Driver
