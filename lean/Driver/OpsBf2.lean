import Driver.OpsCfg
import Bec2Verif.Model.Bf2
open Bec2Verif Driver Bf2
namespace Driver

/-- lines := `-` | typ:ndx:taghex:rawhex,… -/
def parseLines (s : String) : Option (List Line) :=
  if s == "-" then some [] else
  (s.splitOn ",").mapM fun item =>
    match item.splitOn ":" with
    | [t, n, tag, raw] => do
      let tn ← t.toNat?; let nn ← n.toNat?; let tb ← parseHex tag; let rb ← parseHex raw
      pure { typ := tn, ndx := nn, tag := tb, raw := rb }
    | _ => none

def showInt (x : Int) : String := if x < 0 then "n" ++ toString x.natAbs else toString x.toNat

def opBf2Unpack : List String → String
  | [ls] => match parseLines ls with
    | some lines => (match unpackPayload lines with
      | .ok bs => "ok " ++ (if bs.isEmpty then "-" else ",".intercalate (bs.map fun (a, d) => showInt a ++ ":" ++ toHex d))
      | .error e => "err " ++ e.name)
    | none => "bad-op"
  | _ => "bad-op"

def opBf2Convert : List String → String
  | [f, ls] => match f.toNat?, parseLines ls with
    | some fmt, some lines => resBytes (convertPayload lines fmt)
    | _, _ => "bad-op"
  | _ => "bad-op"

def opBf2Import : List String → String
  | [enf, t] => match parseStr t with
    | some s => (match Entry.importBf2 s (enf == "1") with
      | .ok (cm, comps) => "ok " ++ showComments cm ++ " " ++ showComps comps
      | .error e => "err " ++ e.name)
    | none => "bad-op"
  | _ => "bad-op"

def opPfid2 : List String → String
  | [f] => match parseHex f with
    | some b => (match Entry.formatFilter b with
      | .ok s => "ok " ++ showStr s
      | .error e => "err " ++ e.name)
    | none => "bad-op"
  | _ => "bad-op"

def bf2Ops : List (String × (List String → String)) :=
  [("bf2.unpack", opBf2Unpack), ("bf2.convert", opBf2Convert), ("bf2.import", opBf2Import), ("pfid2", opPfid2)]

end Driver
