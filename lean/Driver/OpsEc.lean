import Driver.OpsBf2
import Bec2Verif.Model.EcOps
import Bec2Verif.Gen.Curves
open Bec2Verif Driver Ec
namespace Driver

/-- curve := `<name>` (one of the regenerated records) | `p:a:b:gx:gy:n:h` (integers, `n…` = negative) -/
def parseDomain (s : String) : Option Domain :=
  match Gen.curves.find? (·.name == s) with
  | some r => some { curve := { p := r.p, a := r.a, b := r.b }, gx := r.gx, gy := r.gy, n := r.n, h := r.h }
  | none =>
    match (s.splitOn ":").mapM parseInt with
    | some [p, a, b, gx, gy, n, h] => some { curve := { p := p, a := a, b := b }, gx := gx, gy := gy, n := n, h := h }
    | _ => none

/-- point := `inf` | `X,Y,Z` -/
def parsePt (s : String) : Option Pt :=
  if s == "inf" then some .inf else
  match (s.splitOn ",").mapM parseInt with
  | some [x, y, z] => some (.jac x y z)
  | _ => none

/-- object := `X,Y,Z,order,gen` -/
def parsePJ (s : String) : Option PJ :=
  match (s.splitOn ",").mapM parseInt with
  | some [x, y, z, o, g] => some { X := x, Y := y, Z := z, order := o, gen := g != 0 }
  | _ => none

def parseAPt (s : String) : Option APt :=
  if s == "inf" then some .inf else
  match (s.splitOn ",").mapM parseInt with
  | some [x, y] => some (.pt x y)
  | _ => none

/-- raw coordinates and affine value: `J=X,Y,Z A=x,y` | `inf` -/
def showPt (c : Curve) (P : Pt) : String :=
  match P with
  | .inf => "ok inf"
  | .jac X Y Z =>
    match toAffine c P with
    | some (some (x, y)) => "ok J=" ++ showInt X ++ "," ++ showInt Y ++ "," ++ showInt Z ++ " A=" ++ showInt x ++ "," ++ showInt y
    | some none => "ok J=" ++ showInt X ++ "," ++ showInt Y ++ "," ++ showInt Z ++ " A=inf"
    | none => "err ValueError"

def showOptPt (c : Curve) : Option Pt → String
  | some P => showPt c P
  | none => "err ValueError"

def showAPt : Except Err APt → String
  | .ok .inf => "ok inf"
  | .ok (.pt x y) => "ok " ++ showInt x ++ "," ++ showInt y
  | .error e => "err " ++ e.name

def opEcAdd : List String → String
  | [d, p, q] => match parseDomain d, parsePt p, parsePt q with
    | some d, some P, some Q => showPt d.curve (add d.curve P Q)
    | _, _, _ => "bad-op"
  | _ => "bad-op"

def opEcDouble : List String → String
  | [d, p] => match parseDomain d, parsePt p with
    | some d, some P => showPt d.curve (double d.curve P)
    | _, _ => "bad-op"
  | _ => "bad-op"

def opEcMul : List String → String
  | [d, p, k] => match parseDomain d, parsePJ p, parseInt k with
    | some d, some P, some k => showOptPt d.curve (pjMul d.curve P k)
    | _, _, _ => "bad-op"
  | _ => "bad-op"

def opEcMulAdd : List String → String
  | [d, p, k1, q, k2] => match parseDomain d, parsePJ p, parseInt k1, parseInt k2 with
    | some d, some P, some k1, some k2 =>
      if q == "inf" then showOptPt d.curve (mulAdd d.curve P k1 none k2) else
      match parsePJ q with
      | some Q => showOptPt d.curve (mulAdd d.curve P k1 (some Q) k2)
      | none => "bad-op"
    | _, _, _, _ => "bad-op"
  | _ => "bad-op"

/-- ec.neg <domain> <P> : `-P` (raw coordinates: the unreduced `-Y`) -/
def opEcNeg : List String → String
  | [d, p] => match parseDomain d, parsePt p with
    | some d, some P => showPt d.curve (neg P)
    | _, _ => "bad-op"
  | _ => "bad-op"

/-- ec.negadd <domain> <P> <Q> : `(-P) + Q` -/
def opEcNegAdd : List String → String
  | [d, p, q] => match parseDomain d, parsePt p, parsePt q with
    | some d, some P, some Q => showPt d.curve (add d.curve (neg P) Q)
    | _, _, _ => "bad-op"
  | _ => "bad-op"

def opEcEq : List String → String
  | [d, p, q] => match parseDomain d, parsePt p, parsePt q with
    | some d, some P, some Q => "ok " ++ toString (pjEq d.curve P Q)
    | _, _, _ => "bad-op"
  | _ => "bad-op"

def opApAdd : List String → String
  | [d, p, q] => match parseDomain d, parseAPt p, parseAPt q with
    | some d, some P, some Q => showAPt (aAdd d.curve P Q)
    | _, _, _ => "bad-op"
  | _ => "bad-op"

def opApDouble : List String → String
  | [d, p] => match parseDomain d, parseAPt p with
    | some d, some P => showAPt (aDouble d.curve P)
    | _, _ => "bad-op"
  | _ => "bad-op"

def opApNeg : List String → String
  | [d, p] => match parseDomain d, parseAPt p with
    | some d, some P => showAPt (aNeg d.curve P)
    | _, _ => "bad-op"
  | _ => "bad-op"

def opApMul : List String → String
  | [d, o, p, e] => match parseDomain d, parseInt o, parseAPt p, parseInt e with
    | some d, some o, some P, some e => showAPt (aMul d.curve o P e)
    | _, _, _, _ => "bad-op"
  | _ => "bad-op"

def opEcValidate : List String → String
  | [d, x, y] => match parseDomain d, parseInt x, parseInt y with
    | some d, some x, some y =>
      (match validatePoint d x y with
        | .ok () => "ok valid"
        | .error e => "err " ++ e.name)
    | _, _, _ => "bad-op"
  | _ => "bad-op"

def opEcDh : List String → String
  | [d, priv, x, y] => match parseDomain d, parseInt priv, parseInt x, parseInt y with
    | some d, some k, some x, some y =>
      (match sharedSecret d k x y with
        | .ok s => "ok " ++ showInt s
        | .error e => "err " ++ e.name)
    | _, _, _, _ => "bad-op"
  | _ => "bad-op"

/-- curve.params <name> : the regenerated domain parameters as JSON (the generator of the harness uses them) -/
def opCurveParams : List String → String
  | [d] => match parseDomain d with
    | some d => "{\"p\": " ++ toString d.curve.p ++ ", \"a\": " ++ toString d.curve.a ++ ", \"b\": " ++ toString d.curve.b
        ++ ", \"gx\": " ++ toString d.gx ++ ", \"gy\": " ++ toString d.gy ++ ", \"n\": " ++ toString d.n
        ++ ", \"h\": " ++ toString d.h ++ "}"
    | none => "bad-op"
  | _ => "bad-op"

def ecOps : List (String × (List String → String)) :=
  [("curve.params", opCurveParams), ("ec.add", opEcAdd), ("ec.double", opEcDouble), ("ec.mul", opEcMul), ("ec.muladd", opEcMulAdd), ("ec.eq", opEcEq),
   ("ec.neg", opEcNeg), ("ec.negadd", opEcNegAdd), ("ap.add", opApAdd), ("ap.double", opApDouble), ("ap.neg", opApNeg), ("ap.mul", opApMul),
   ("ec.validate", opEcValidate), ("ec.dh", opEcDh)]

end Driver
