import Driver.OpsEc
import Bec2Verif.Model.RwLock
import Std.Data.HashSet
open Bec2Verif Driver RwLock
namespace Driver

/-- state := `<threads> <locks> <rc> <wc>`; threads = `r<pc>` / `w<pc>` joined by `,`; locks = 5 bits rq nr nw rm wm -/
def parseThread (s : String) : Option Thread :=
  if s.startsWith "r" then (s.drop 1).toString.toNat?.map (fun n => ⟨.reader, n⟩)
  else if s.startsWith "w" then (s.drop 1).toString.toNat?.map (fun n => ⟨.writer, n⟩)
  else none

def showThread (t : Thread) : String := (match t.role with | .reader => "r" | .writer => "w") ++ toString t.pc

def bit (b : Bool) : String := if b then "1" else "0"

def showRw (s : State) : String :=
  ",".intercalate (s.threads.map showThread) ++ " " ++ bit s.rq ++ bit s.nr ++ bit s.nw ++ bit s.rm ++ bit s.wm
    ++ " " ++ toString s.rc ++ " " ++ toString s.wc

def parseRw : List String → Option State
  | [ts, locks, rc, wc] => do
    let threads ← (ts.splitOn ",").mapM parseThread
    let bs := locks.toList.map (· == '1')
    match bs, rc.toNat?, wc.toNat? with
    | [rq, nr, nw, rm, wm], some rc, some wc => some { threads, rq, nr, nw, rm, wm, rc, wc }
    | _, _, _ => none
  | _ => none

/-- rw.succ <state> : `i>state` for every thread that can execute its next line, joined by `;` (or `-`) -/
def opRwSucc (args : List String) : String :=
  match parseRw args with
  | some s =>
    let succ := successors s
    if succ.isEmpty then "ok -" else "ok " ++ ";".intercalate (succ.map (fun (i, s') => toString i ++ ">" ++ (showRw s').replace " " "_"))
  | none => "bad-op"

/-- breadth-first closure of the model's transition relation -/
partial def bfs (frontier : List State) (seen : Std.HashSet State) (edges : List String) : Std.HashSet State × List String :=
  match frontier with
  | [] => (seen, edges)
  | _ =>
    let (next, seen, edges) := frontier.foldl (fun (acc : List State × Std.HashSet State × List String) s =>
      let (next, seen, edges) := acc
      let sname := showRw s
      (List.range s.threads.length).foldl (fun (acc : List State × Std.HashSet State × List String) i =>
        let (next, seen, edges) := acc
        match step s i with
        | some s' =>
          let e := sname ++ " -" ++ toString i ++ "-> " ++ showRw s'
          if seen.contains s' then (next, seen, e :: edges) else (s' :: next, seen.insert s', e :: edges)
        | none =>
          -- a thread that is neither finished nor able to move is blocked
          match s.threads[i]? with
          | some t => if finished t then (next, seen, edges) else (next, seen, (sname ++ " -" ++ toString i ++ "-> blocked") :: edges)
          | none => (next, seen, edges)) (next, seen, edges)) ([], seen, edges)
    bfs next seen edges

def strDigest (s : String) : Nat := s.toList.foldl (fun acc c => (acc * 65599 + c.toNat) % 18446744073709551557) 7

/-- rw.explore <roles> : number of reachable states, number of transitions (incl. blocked attempts) and a digest of the
sorted transition list -/
def opRwExplore : List String → String
  | [roles] =>
    match roles.toList.mapM (fun c => if c == 'r' then some Role.reader else if c == 'w' then some Role.writer else none) with
    | some rs =>
      let s0 := init rs
      let (seen, edges) := bfs [s0] (Std.HashSet.emptyWithCapacity.insert s0) []
      let sorted := (edges.toArray.qsort (· < ·)).toList
      -- the property on the model's own graph
      let states := seen.toList
      let excl := states.all (fun s =>
        let inside := s.threads.filter inCS
        !(inside.any (fun t => t.role == .writer) && inside.length > 1))
      let live := states.all (fun s => s.threads.all finished || !(successors s).isEmpty)
      let share := (rs.filter (· == .reader)).length < 2 ||
        states.any (fun s => (s.threads.filter (fun t => t.role == .reader && inCS t)).length ≥ 2)
      "ok " ++ toString seen.size ++ " " ++ toString edges.length ++ " " ++ toString (strDigest ("\n".intercalate sorted))
        ++ " verdict=" ++ (if excl && live && share then "ok" else "FAIL")
    | none => "bad-op"
  | _ => "bad-op"

def rwOps : List (String × (List String → String)) := [("rw.succ", opRwSucc), ("rw.explore", opRwExplore)]

end Driver
