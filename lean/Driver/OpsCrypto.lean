import Driver.Util
import Bec2Verif.Model.Crypto
open Bec2Verif Driver
namespace Driver

def parseIv (s : String) : Option (Option Bytes) :=
  if s == "none" then some none else (parseHex s).map some

def opAesBlock (dec : Bool) : List String → String
  | [k, b] =>
    match parseHex k, parseHex b with
    | some key, some blk =>
      resBytes (do
        let ks ← Aes.mkKeys key
        if dec then Aes.decrypt ks blk else Aes.encrypt ks blk)
    | _, _ => "bad-op"
  | _ => "bad-op"

def opAdapter (which : Nat) : List String → String
  | [k, iv, d] =>
    match parseHex k, parseIv iv, parseHex d with
    | some key, some ivo, some data =>
      resBytes (match which with
        | 0 => aesCrypto.encrypt key ivo data
        | 1 => aesCrypto.decrypt key ivo data
        | _ => aesCrypto.mac key ivo data)
    | _, _, _ => "bad-op"
  | _ => "bad-op"

def cryptoOps : List (String × (List String → String)) :=
  [("aes.enc", opAesBlock false), ("aes.dec", opAesBlock true),
   ("ad.enc", opAdapter 0), ("ad.dec", opAdapter 1), ("ad.mac", opAdapter 2)]

end Driver
