import Driver.OpsBf3
import Bec2Verif.Model.Text
import Bec2Verif.Model.Entry
open Bec2Verif Driver
namespace Driver

def utf8Of (s : Text.Str) : Bytes := (String.ofList s).toUTF8.toList
def strOfUtf8 (b : Bytes) : Option Text.Str := (String.fromUTF8? (ByteArray.mk b.toArray)).map String.toList
def parseStr (s : String) : Option Text.Str := (parseHex s).bind strOfUtf8
def showStr (s : Text.Str) : String := toHex (utf8Of s)

/-- comments := `-` | khex=vhex,khex=vhex -/
def parseComments (s : String) : Option (List (Text.Str × Text.Str)) :=
  if s == "-" then some [] else
  (s.splitOn ",").mapM fun item =>
    match item.splitOn "=" with
    | [k, v] => do let ks ← parseStr k; let vs ← parseStr v; pure (ks, vs)
    | _ => none

def showComments (c : List (Text.Str × Text.Str)) : String :=
  if c.isEmpty then "-" else ",".intercalate (c.map fun (k, v) => showStr k ++ "=" ++ showStr v)

def opTextWrite : List String → String
  | [c, r] =>
    match parseComments c, parseHex r with
    | some cm, some raw => "ok " ++ showStr (Text.writeText cm raw)
    | _, _ => "bad-op"
  | _ => "bad-op"

def opTextParse (path : Bool) : List String → String
  | [t] =>
    match parseStr t with
    | some s =>
      match Text.parseText (if path then Text.universalNewlines s else s) with
      | .ok (cm, raw) => "ok " ++ showComments cm ++ " " ++ toHex raw
      | .error e => "err " ++ e.name
    | none => "bad-op"
  | _ => "bad-op"

def opTextCrlf : List String → String
  | [t] => match parseStr t with
    | some s => "ok " ++ showStr (Text.toCRLF s)
    | none => "bad-op"
  | _ => "bad-op"

/-- bf3.readtext <chk> <key> <hextext> : `Bf3File.read_file` on a stream (path: through universal newlines) -/
def opBf3ReadText (path : Bool) : List String → String
  | [chk, k, t] =>
    match parseHex k, parseStr t with
    | some key, some s =>
      let r := Entry.readBf3 aesCrypto (chk == "1") key (if path then Text.universalNewlines s else s)
      match r with
      | .ok (cm, comps) => "ok " ++ showComments cm ++ " " ++ showComps comps
      | .error e => "err " ++ e.name
    | _, _ => "bad-op"
  | _ => "bad-op"

/-- bf3.writetext <key> <comments> <comps> : `Bf3File.write_file` to a stream -/
def opBf3WriteText (path : Bool) : List String → String
  | [k, c, cs] =>
    match parseHex k, parseComments c, parseComps cs with
    | some key, some cm, some comps =>
      match Bf3.writeBinary aesCrypto comps key with
      | .ok bin => let t := Text.writeText cm bin; "ok " ++ showStr (if path then Text.toCRLF t else t)
      | .error e => "err " ++ e.name
    | _, _, _ => "bad-op"
  | _ => "bad-op"

def textOps : List (String × (List String → String)) :=
  [("text.write", opTextWrite), ("text.parse", opTextParse false), ("text.parsepath", opTextParse true),
   ("text.crlf", opTextCrlf),
   ("bf3.readtext", opBf3ReadText false), ("bf3.readpath", opBf3ReadText true),
   ("bf3.writetext", opBf3WriteText false), ("bf3.writepath", opBf3WriteText true)]

end Driver
