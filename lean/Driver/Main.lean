import Driver.Util
import Bec2Verif.Model.Crc
import Driver.OpsCrypto
import Driver.OpsBf3
import Driver.OpsText
import Driver.OpsBec2
import Driver.OpsModes
import Driver.OpsCfg
import Driver.OpsBf2
import Driver.OpsEc
import Driver.OpsRw
import Driver.OpsDer
import Driver.OpsEcdsa
/-!
Line-protocol driver of the executable model: one operation per input line,
one canonical result line per operation.
-/
open Bec2Verif Driver

def opCrc (args : List String) : String :=
  match args with
  | [d, s] =>
    match parseHex d, s.toNat? with
    | some bs, some st => "ok " ++ toString (Crc.crcPy (bs.map UInt8.toNat) st)
    | _, _ => "bad-op"
  | _ => "bad-op"

def opCrcStep (args : List String) : String :=
  match args.map String.toNat? with
  | [some cur, some c] => "ok " ++ toString (Crc.stepPy cur c)
  | _ => "bad-op"

/-- digest over a full row of the step table: all 256 bytes for start value `cur` -/
def opCrcRow (args : List String) : String :=
  match args.map String.toNat? with
  | [some cur] =>
    let vals := (List.range 256).map (fun c => Crc.stepPy cur c)
    "ok " ++ toString (vals.foldl (fun acc v => (acc * 65599 + v) % 18446744073709551557) 7)
  | _ => "bad-op"

def dispatch (line : String) : String :=
  match (line.splitOn " ").filter (· ≠ "") with
  | [] => "bad-op"
  | op :: args =>
    match op with
    | "crc" => opCrc args
    | "crcstep" => opCrcStep args
    | "crcrow" => opCrcRow args
    | _ =>
      match (cryptoOps ++ bf3Ops ++ textOps ++ bec2Ops ++ modeOps ++ cfgOps ++ bf2Ops ++ ecOps ++ rwOps ++ derOps ++ codecOps ++ ecdsaOps).find? (·.1 == op) with
      | some (_, f) => f args
      | none => "bad-op"

partial def loop (h : IO.FS.Stream) (out : IO.FS.Stream) : IO Unit := do
  let line ← h.getLine
  if line.isEmpty then return ()
  let l := String.ofList (line.toList.filter (fun c => c != '\n' && c != '\r'))
  out.putStrLn (dispatch l)
  out.flush          -- the harness watches the answers line by line (a line that takes for ever is identified by it)
  loop h out

def main : IO Unit := do
  let stdin ← IO.getStdin
  let stdout ← IO.getStdout
  loop stdin stdout
