import Driver.OpsText
import Bec2Verif.Model.P256
open Bec2Verif Driver Bec2
namespace Driver

def parseInt (s : String) : Option Int :=
  if s.startsWith "n" then (s.drop 1).toString.toNat?.map (fun n => -(n : Int)) else s.toNat?.map (fun n => (n : Int))

/-- block := `c` | `e<sel>` | `u<codehex>:<ver>` | `x<tag>:<rawhex>` -/
def parseBlock (s : String) : Option AuthBlock :=
  if s == "c" then some .initCust
  else if s.startsWith "e" then (s.drop 1).toString.toNat?.map .initEcc
  else if s.startsWith "u" then
    match (s.drop 1).toString.splitOn ":" with
    | [c, v] => do let code ← parseHex c; let ver ← v.toNat?; pure (.update code ver)
    | _ => none
  else if s.startsWith "x" then
    match (s.drop 1).toString.splitOn ":" with
    | [t, r] => do let tag ← t.toNat?; let raw ← parseHex r; pure (.unknown tag raw)
    | _ => none
  else none

def parseBlocks (s : String) : Option (List AuthBlock) :=
  if s == "-" then some [] else (s.splitOn ",").mapM parseBlock

def showBlock : AuthBlock → String
  | .initCust => "c"
  | .initEcc s => "e" ++ toString s
  | .update c v => "u" ++ toHex c ++ ":" ++ toString v
  | .unknown t r => "x" ++ toString t ++ ":" ++ toHex r

def showBlocks (bs : List AuthBlock) : String :=
  if bs.isEmpty then "-" else ",".intercalate (bs.map showBlock)

/-- encryptor := `C<key>:<ck>:<pos>` | `P<sel>:<pubraw>` | `D<sel>:<priv>` | `S<code>` -/
def parseEnc (s : String) : Option Encryptor :=
  let body := (s.drop 1).toString
  if s.startsWith "C" then
    match body.splitOn ":" with
    | [k, ck, pos] => do let key ← parseHex k; let c ← parseHex ck; let p ← parseInt pos; pure (.custKey key c p)
    | _ => none
  else if s.startsWith "P" then
    match body.splitOn ":" with
    | [sel, pub] => do let sl ← sel.toNat?; let p ← parseHex pub; pure (.eccPub sl p)
    | _ => none
  else if s.startsWith "D" then
    match body.splitOn ":" with
    | [sel, d] => do let sl ← sel.toNat?; let dn ← d.toNat?; pure (.eccPriv sl dn)
    | _ => none
  else if s.startsWith "S" then (parseHex body).map .csc
  else none

def parseEncs (s : String) : Option (List Encryptor) :=
  if s == "-" then some [] else (s.splitOn ",").mapM parseEnc

def parseNats (s : String) : Option (List Nat) :=
  if s == "-" then some [] else (s.splitOn ",").mapM String.toNat?

def opWrap (un : Bool) : List String → String
  | [k, d] =>
    match parseHex k, parseHex d with
    | some key, some data => resBytes (if un then unwrap aesCrypto key data else wrap aesCrypto key data)
    | _, _ => "bad-op"
  | _ => "bad-op"

def opCk (dec : Bool) : List String → String
  | [k, ck, pos, d] =>
    match parseHex k, parseHex ck, parseInt pos, parseHex d with
    | some key, some c, some p, some data =>
      resBytes (if dec then custKeyDecrypt aesCrypto key c p data else custKeyEncrypt aesCrypto key c p data)
    | _, _, _, _ => "bad-op"
  | _ => "bad-op"

def opSha : List String → String
  | [d] => match parseHex d with
    | some data => "ok " ++ toHex (Sha256.sha256 data)
    | none => "bad-op"
  | _ => "bad-op"

def opCscKey : List String → String
  | [d] => match parseHex d with
    | some data => "ok " ++ toHex (cscKey Sha256.sha256 data)
    | none => "bad-op"
  | _ => "bad-op"

def opEccPub : List String → String
  | [d] => match d.toNat? with
    | some n => resBytes (P256.pubOf n)
    | none => "bad-op"
  | _ => "bad-op"

def opEccLoad : List String → String
  | [r] => match parseHex r with
    | some raw => resBytes (P256.loadRaw raw)
    | none => "bad-op"
  | _ => "bad-op"

def opEccDh : List String → String
  | [d, r] => match d.toNat?, parseHex r with
    | some n, some raw => resBytes (P256.dh n raw)
    | _, _ => "bad-op"
  | _ => "bad-op"

def opEccEnc : List String → String
  | [pub, eph, d] => match parseHex pub, eph.toNat?, parseHex d with
    | some p, some e, some data => resBytes (eccEncrypt P256.env p e data)
    | _, _, _ => "bad-op"
  | _ => "bad-op"

def opEccDec : List String → String
  | [priv, d] => match priv.toNat?, parseHex d with
    | some p, some data => resBytes (eccDecrypt P256.env p data)
    | _, _ => "bad-op"
  | _ => "bad-op"

/-- bec2.pack <key> <blocks> <encs> <ephs> → header TLVs incl. terminator -/
def opBec2Pack : List String → String
  | [k, bs, es, ephs] =>
    match parseHex k, parseBlocks bs, parseEncs es, parseNats ephs with
    | some key, some blocks, some encs, some eph =>
      match packBlocks P256.env key encs (blocksDict [] blocks) eph with
      | .ok (b, rest) => "ok " ++ toHex b ++ " " ++ toString rest.length
      | .error e => "err " ++ e.name
    | _, _, _, _ => "bad-op"
  | _ => "bad-op"

def showFile (f : File) : String := toHex f.key ++ " " ++ showBlocks f.blocks ++ " " ++ showComps f.comps

/-- bec2.tobin <key> <blocks> <comps> <encs> <ephs> -/
def opBec2ToBin : List String → String
  | [k, bs, cs, es, ephs] =>
    match parseHex k, parseBlocks bs, parseComps cs, parseEncs es, parseNats ephs with
    | some key, some blocks, some comps, some encs, some eph =>
      match toBinary P256.env { comps := comps, blocks := blocksDict [] blocks, key := key } encs eph with
      | .ok (b, rest) => "ok " ++ toHex b ++ " " ++ toString rest.length
      | .error e => "err " ++ e.name
    | _, _, _, _, _ => "bad-op"
  | _ => "bad-op"

/-- what `random_bytes(16)` returns while the harness reads a file (the constructor's `session_key or random_bytes(16)`) -/
def freshKey : Bytes := List.replicate 16 0xA5

/-- bec2.read <chk> <encs> <binhex> -/
def opBec2Read : List String → String
  | [chk, es, b] =>
    match parseEncs es, parseHex b with
    | some encs, some bin =>
      match readBinary P256.env encs (chk == "1") bin freshKey with
      | .ok f => "ok " ++ showFile f
      | .error e => "err " ++ e.name
    | _, _ => "bad-op"
  | _ => "bad-op"

/-- bec2.readtext <chk> <encs> <texthex> -/
def opBec2ReadText : List String → String
  | [chk, es, t] =>
    match parseEncs es, parseStr t with
    | some encs, some s =>
      let r := Entry.readBec2 P256.env encs (chk == "1") s freshKey
      match r with
      | .ok (cm, f) => "ok " ++ showComments cm ++ " " ++ showFile f
      | .error e => "err " ++ e.name
    | _, _ => "bad-op"
  | _ => "bad-op"

def bec2Ops : List (String × (List String → String)) :=
  [("wrap", opWrap false), ("unwrap", opWrap true), ("ck.enc", opCk false), ("ck.dec", opCk true),
   ("sha256", opSha), ("csc.key", opCscKey), ("ecc.pub", opEccPub), ("ecc.load", opEccLoad),
   ("ecc.dh", opEccDh), ("ecc.enc", opEccEnc), ("ecc.dec", opEccDec),
   ("bec2.pack", opBec2Pack), ("bec2.tobin", opBec2ToBin), ("bec2.read", opBec2Read),
   ("bec2.readtext", opBec2ReadText)]

end Driver
