import Driver.Util
import Bec2Verif.Model.Bf3
open Bec2Verif Driver
namespace Driver

/-- desc := `-` | `tag:hex,tag:hex…` -/
def parseDescS (s : String) : Option (List (Nat × Bytes)) :=
  if s == "-" then some [] else
  (s.splitOn ",").mapM fun item =>
    match item.splitOn ":" with
    | [t, v] => do let tn ← t.toNat?; let vb ← parseHex v; pure (tn, vb)
    | _ => none

def showDesc (d : List (Nat × Bytes)) : String :=
  if d.isEmpty then "-" else ",".intercalate (d.map fun (t, v) => toString t ++ ":" ++ toHex v)

/-- comp := `desc|blobhex|actual|0/1` ; comps := `-` | comp;comp… -/
def parseComp (s : String) : Option Bf3.Comp :=
  match s.splitOn "|" with
  | [d, b, a, e] => do
    let desc ← parseDescS d
    let blob ← parseHex b
    let act ← a.toNat?
    pure { desc := desc, blob := blob, actualLen := act, enc := e == "1" }
  | _ => none

def parseComps (s : String) : Option (List Bf3.Comp) :=
  if s == "-" then some [] else (s.splitOn ";").mapM parseComp

def showComp (c : Bf3.Comp) : String :=
  showDesc c.desc ++ "|" ++ toHex c.blob ++ "|" ++ toString c.actualLen ++ "|" ++ (if c.enc then "1" else "0")

def showComps (cs : List Bf3.Comp) : String :=
  if cs.isEmpty then "-" else ";".intercalate (cs.map showComp)

def resComps : Except Err (List Bf3.Comp) → String
  | .ok cs => "ok " ++ showComps cs
  | .error e => "err " ++ e.name

/-- bf3.tobin <off> <key> <comps> -/
def opBf3ToBin : List String → String
  | [off, k, cs] =>
    match off.toNat?, parseHex k, parseComps cs with
    | some o, some key, some comps => resBytes (Bf3.toBinary aesCrypto comps o key)
    | _, _, _ => "bad-op"
  | _ => "bad-op"

/-- bf3.frombin <chk> <key> <pos> <hex> -/
def opBf3FromBin : List String → String
  | [chk, k, pos, b] =>
    match parseHex k, pos.toNat?, parseHex b with
    | some key, some p, some bin => resComps (Bf3.fromBinary aesCrypto (chk == "1") key p bin)
    | _, _, _ => "bad-op"
  | _ => "bad-op"

/-- bf3.write <key> <comps>  (signature + body) ; bf3.read <chk> <key> <hex> -/
def opBf3Write : List String → String
  | [k, cs] =>
    match parseHex k, parseComps cs with
    | some key, some comps => resBytes (Bf3.writeBinary aesCrypto comps key)
    | _, _ => "bad-op"
  | _ => "bad-op"

def opBf3Read : List String → String
  | [chk, k, b] =>
    match parseHex k, parseHex b with
    | some key, some bin => resComps (Bf3.readBinary aesCrypto (chk == "1") key bin)
    | _, _ => "bad-op"
  | _ => "bad-op"

def bf3Ops : List (String × (List String → String)) :=
  [("bf3.tobin", opBf3ToBin), ("bf3.frombin", opBf3FromBin), ("bf3.write", opBf3Write), ("bf3.read", opBf3Read)]

end Driver
