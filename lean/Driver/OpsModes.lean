import Driver.Util
import Bec2Verif.Model.Modes
open Bec2Verif Driver Modes
namespace Driver

structure MH where
  modes : List (Nat × St aesCipher) := []
  feeders : List (Nat × Feeder aesCipher) := []
  /-- objects on which a call raised: their Python state is undefined, later calls are not compared -/
  deadModes : List Nat := []
  deadFeeders : List Nat := []

def setSlot {α : Type} (l : List (Nat × α)) (i : Nat) (v : α) : List (Nat × α) :=
  (i, v) :: l.filter (·.1 != i)

def parseKind (s : String) (seg : Nat) : Option Kind :=
  match s with
  | "ecb" => some .ecb | "cbc" => some .cbc | "cfb" => some (.cfb seg) | "ofb" => some .ofb | "ctr" => some .ctr
  | _ => none

def mhStep (st : MH) (toks : List String) : MH × String :=
  match toks with
  | ["new", slot, kind, key, iv, ctr, seg] =>
    match slot.toNat?, parseKind kind (seg.toNat?.getD 1), parseHex key, ctr.toNat? with
    | some sl, some k, some kb, some c =>
      let ivo := if iv == "none" then some none else (parseHex iv).map some
      match ivo with
      | none => (st, "bad")
      | some ivv =>
        match Modes.new aesCipher k kb ivv c with
        | .ok m => ({ st with modes := setSlot st.modes sl m }, "-")
        | .error e => (st, "err:" ++ e.name)
    | _, _, _, _ => (st, "bad")
  | [op, slot, d] =>
    if op == "enc" || op == "dec" then
      match slot.toNat?, parseHex d with
      | some sl, some data =>
        if st.deadModes.contains sl then (st, "err:Dead") else
        match st.modes.lookup sl with
        | none => (st, "err:NoObject")
        | some m =>
          match Modes.step aesCipher m (op == "dec") data with
          | .ok (m', o) => ({ st with modes := setSlot st.modes sl m' }, toHex o)
          | .error e => ({ st with deadModes := sl :: st.deadModes }, "err:" ++ e.name)
      | _, _ => (st, "bad")
    else if op == "feed" then
      match slot.toNat? with
      | some sl =>
        if st.deadFeeders.contains sl then (st, "err:Dead") else
        match st.feeders.lookup sl with
        | none => (st, "err:NoObject")
        | some f =>
          let data := if d == "final" then some none else (parseHex d).map some
          match data with
          | none => (st, "bad")
          | some dd =>
            match Modes.feed aesCipher f dd with
            | .ok (f', o) => ({ st with feeders := setSlot st.feeders sl f' }, toHex o)
            | .error e => ({ st with deadFeeders := sl :: st.deadFeeders }, "err:" ++ e.name)
      | none => (st, "bad")
    else (st, "bad")
  | ["fnew", slot, mslot, dir, pad] =>
    match slot.toNat?, mslot.toNat? with
    | some sl, some ms =>
      match st.modes.lookup ms with
      | none => (st, "err:NoObject")
      | some m =>
        let f : Feeder aesCipher := { mode := m, dec := dir == "dec", padding := if pad == "none" then .none else .default,
                                      buffer := some [] }
        ({ st with feeders := setSlot st.feeders sl f }, "-")
    | _, _ => (st, "bad")
  | _ => (st, "bad")

/-- mh <step>|<step>|…  with step = comma-separated tokens; a fresh object store per line -/
def opModeHist : List String → String
  | [h] =>
    let steps := h.splitOn "|"
    let (_, outs) := steps.foldl (fun (acc : MH × List String) s =>
      let (st', o) := mhStep acc.1 (s.splitOn ",")
      (st', acc.2 ++ [o])) ({}, [])
    if outs.contains "bad" then "bad-op" else "ok " ++ "|".intercalate outs
  | _ => "bad-op"

/-- ms kind key iv ctr seg dir pad blocksize data : `encrypt_stream` / `decrypt_stream` = `Modes.feedStream` (the theorems
`stream_chunking_independent` / `stream_block_size_independent` of C16 are about this function) -/
def opModeStream : List String → String
  | [kind, key, iv, ctr, seg, dir, pad, bs, data] =>
    match bs.toNat?, parseKind kind (seg.toNat?.getD 1), parseHex key, ctr.toNat?, parseHex (if data == "-" then "" else data) with
    | some (n+1), some k, some kb, some c, some d =>
      let ivo := if iv == "none" then some none else (parseHex iv).map some
      match ivo with
      | none => "bad-op"
      | some ivv =>
        match Modes.new aesCipher k kb ivv c with
        | .error e => "err " ++ e.name
        | .ok m =>
          let f : Feeder aesCipher := { mode := m, dec := dir == "dec", padding := if pad == "none" then .none else .default,
                                        buffer := some [] }
          match Modes.feedStream aesCipher f (n+1) d with
          | .error e => "err " ++ e.name
          | .ok o => "ok " ++ (if o.isEmpty then "-" else toHex o)
    | _, _, _, _, _ => "bad-op"
  | _ => "bad-op"

def modeOps : List (String × (List String → String)) := [("mh", opModeHist), ("ms", opModeStream)]

end Driver
