import Driver.OpsRw
import Bec2Verif.Model.Der
import Bec2Verif.Model.PointCodec
import Bec2Verif.Model.KeyDer
import Bec2Verif.Model.CurveDer
import Bec2Verif.Model.Pem
import Bec2Verif.Gen.Curves
open Bec2Verif Driver Der
namespace Driver

def showNats (l : List Nat) : String := ",".intercalate (l.map toString)

def resPair (r : Except Err (Bytes × Bytes)) : String :=
  match r with
  | .ok (a, b) => "ok " ++ toHex a ++ " " ++ toHex b
  | .error e => "err " ++ e.name

def opDer (name : String) : List String → String
  | [a] =>
    match name with
    | "der.len" => (match a.toNat? with | some n => "ok " ++ toHex (encodeLength n) | none => "bad-op")
    | "der.int" => (match a.toNat? with | some n => "ok " ++ toHex (encodeInteger n) | none => "bad-op")
    | "der.num" => (match a.toNat? with | some n => "ok " ++ toHex (encodeNumber n) | none => "bad-op")
    | "der.oct" => (match parseHex a with | some b => "ok " ++ toHex (encodeOctetString b) | none => "bad-op")
    | "der.bit" => (match parseHex a with | some b => "ok " ++ toHex (encodeBitstring0 b) | none => "bad-op")
    | "der.seq" => (match (a.splitOn ",").mapM parseHex with | some bs => "ok " ++ toHex (encodeSequence bs) | none => "bad-op")
    | "der.oid" => (match (a.splitOn ",").mapM String.toNat? with
        | some (f :: s :: rest) => "ok " ++ toHex (encodeOid f s rest)
        | _ => "bad-op")
    | "der.rdlen" => (match parseHex a with
        | some b => (match readLength b with | .ok (v, n) => "ok " ++ toString v ++ " " ++ toString n | .error e => "err " ++ e.name)
        | none => "bad-op")
    | "der.rmint" => (match parseHex a with
        | some b => (match removeInteger b with | .ok (v, r) => "ok " ++ toString v ++ " " ++ toHex r | .error e => "err " ++ e.name)
        | none => "bad-op")
    | "der.rmoct" => (match parseHex a with | some b => resPair (removeOctetString b) | none => "bad-op")
    | "der.rmseq" => (match parseHex a with | some b => resPair (removeSequence b) | none => "bad-op")
    | "der.rmbit" => (match parseHex a with | some b => resPair (removeBitstring b 0) | none => "bad-op")
    | "der.rmobj" => (match parseHex a with
        | some b => (match removeObject b with | .ok (v, r) => "ok " ++ showNats v ++ " " ++ toHex r | .error e => "err " ++ e.name)
        | none => "bad-op")
    | "der.rmcons" => (match parseHex a with
        | some b => (match removeConstructed b with
          | .ok (t, v, r) => "ok " ++ toString t ++ " " ++ toHex v ++ " " ++ toHex r | .error e => "err " ++ e.name)
        | none => "bad-op")
    | "der.rdnum" => (match parseHex a with
        | some b => (match readNumber b with | .ok (v, n) => "ok " ++ toString v ++ " " ++ toString n | .error e => "err " ++ e.name)
        | none => "bad-op")
    | _ => "bad-op"
  | [t, v] =>
    if name == "der.cons" then
      match t.toNat?, parseHex v with
      | some tag, some b => "ok " ++ toHex (encodeConstructed tag b)
      | _, _ => "bad-op"
    else "bad-op"
  | _ => "bad-op"

def derOps : List (String × (List String → String)) :=
  ["der.len", "der.int", "der.num", "der.oct", "der.bit", "der.seq", "der.oid", "der.rdlen", "der.rmint", "der.rmoct",
   "der.rmseq", "der.rmbit", "der.rmobj", "der.rmcons", "der.rdnum", "der.cons"].map (fun n => (n, opDer n))

end Driver

namespace Driver
open Bec2Verif.PointCodec

def parseCurveParams (s : String) : Option CurveParams :=
  match Gen.curves.find? (·.name == s) with
  | some r => some { p := r.p.toNat, a := r.a, b := r.b }
  | none =>
    match (s.splitOn ":").mapM parseInt with
    | some (p :: a :: b :: _) => some { p := p.toNat, a := a, b := b }
    | _ => none

def parsePtEnc : String → Option Enc
  | "raw" => some .raw | "uncompressed" => some .uncompressed | "compressed" => some .compressed | "hybrid" => some .hybrid
  | _ => none

def opPtEnc : List String → String
  | [c, e, x, y] => match parseCurveParams c, parsePtEnc e, x.toNat?, y.toNat? with
    | some c, some e, some x, some y => resBytes (toBytes c e x y)
    | _, _, _, _ => "bad-op"
  | _ => "bad-op"

def opPtDec : List String → String
  | [c, d, v] => match parseCurveParams c, parseHex d with
    | some c, some data => (match fromBytes c data (v == "1") with
      | .ok (x, y) => "ok " ++ toString x ++ " " ++ toString y
      | .error e => "err " ++ e.name)
    | _, _ => "bad-op"
  | _ => "bad-op"

def opSqrt : List String → String
  | [a, p] => match a.toNat?, p.toNat? with
    | some a, some p => (match sqrtModPrime a p with | some r => "ok " ++ toString r | none => "err SquareRootError")
    | _, _ => "bad-op"
  | _ => "bad-op"

def opSpki : List String → String
  | [o, pt] => match (o.splitOn ",").mapM String.toNat?, parseHex pt with
    | some oid, some p => "ok " ++ toHex (spki oid p)
    | _, _ => "bad-op"
  | _ => "bad-op"

def opSpkiParse : List String → String
  | [d] => match parseHex d with
    | some data => (match parseSpki data with
      | .ok (oid, pt) => "ok " ++ showNats oid ++ " " ++ toHex pt
      | .error e => "err " ++ e.name)
    | none => "bad-op"
  | _ => "bad-op"

def opKeyToDer : List String → String
  | [f, o, pr, pu] =>
    match (o.splitOn ",").mapM String.toNat?, parseHex pr, parseHex pu with
    | some oid, some priv, some pub =>
      if f == "ssleay" then "ok " ++ toHex (KeyDer.privToDer .ssleay oid priv pub)
      else if f == "pkcs8" then "ok " ++ toHex (KeyDer.privToDer .pkcs8 oid priv pub)
      else "bad-op"
    | _, _, _ => "bad-op"
  | _ => "bad-op"

def opKeyFromDer : List String → String
  | [d] => match parseHex d with
    | some data => (match KeyDer.privFromDer data with
      | .ok (c, secexp) => "ok " ++ c.name ++ " " ++ toString secexp
      | .error e => "err " ++ e.name)
    | none => "bad-op"
  | _ => "bad-op"

def showSInt (i : Int) : String := if i < 0 then "n" ++ toString (-i).toNat else toString i.toNat

/-- curve.toder <p> <a> <b> <gx> <gy> <order> <cofactor|-> <point-encoding> : `Curve.to_der("explicit", point_encoding)` of a
curve object with these parameters -/
def opCurveToDer : List String → String
  | [p, a, b, gx, gy, order, cof, enc] =>
    match p.toNat?, parseInt a, parseInt b, gx.toNat?, gy.toNat?, order.toNat?, parsePtEnc enc with
    | some p, some a, some b, some gx, some gy, some order, some enc =>
      let c : Option (Option Nat) := if cof == "-" then some none else cof.toNat?.map some
      (match c with
       | some c =>
         (match toBytes { p := p, a := a, b := b } enc gx gy with
          | .ok base => resBytes (CurveDer.toDer p a b base order c)
          | .error e => "err " ++ e.name)
       | none => "bad-op")
    | _, _, _, _, _, _, _ => "bad-op"
  | _ => "bad-op"

/-- curve.fromder <derhex> : `Curve.from_der` on explicit parameters -/
def opCurveFromDer : List String → String
  | [d] => match parseHex d with
    | some data => (match CurveDer.curveFromDer data with
      | .ok f => "ok " ++ f.name ++ " " ++ toString f.p ++ " " ++ showSInt f.a ++ " " ++ showSInt f.b ++ " " ++ toString f.gx ++ " " ++
          toString f.gy ++ " " ++ toString f.order ++ " " ++ (match f.cofactor with | some h => toString h | none => "-")
      | .error e => "err " ++ e.name)
    | none => "bad-op"
  | _ => "bad-op"

/-- pem.to <name-hex|-> <der-hex|-> : `der.topem(der, name)` -/
def opPemTo : List String → String
  | [name, d] => match parseHex (if name == "-" then "" else name), parseHex (if d == "-" then "" else d) with
    | some n, some data => "ok " ++ toHex (Pem.topem data n)
    | _, _ => "bad-op"
  | _ => "bad-op"

/-- pem.un <hex|-> : `der.unpem(pem)` on bytes -/
def opPemUn : List String → String
  | [d] => match parseHex (if d == "-" then "" else d) with
    | some data => (match Pem.unpem data with
      | .ok b => "ok " ++ (if b.isEmpty then "-" else toHex b)
      | .error e => "err " ++ e.name)
    | none => "bad-op"
  | _ => "bad-op"

/-- b64.enc / b64.dec <hex|-> : `base64.b64encode` / `base64.b64decode` -/
def opB64Enc : List String → String
  | [d] => match parseHex (if d == "-" then "" else d) with
    | some data => "ok " ++ (let b := Pem.b64encode data; if b.isEmpty then "-" else toHex b)
    | none => "bad-op"
  | _ => "bad-op"

def opB64Dec : List String → String
  | [d] => match parseHex (if d == "-" then "" else d) with
    | some data => (match Pem.b64decode data with
      | .ok b => "ok " ++ (if b.isEmpty then "-" else toHex b)
      | .error e => "err " ++ e.name)
    | none => "bad-op"
  | _ => "bad-op"

def codecOps : List (String × (List String → String)) :=
  [("pt.enc", opPtEnc), ("pt.dec", opPtDec), ("nt.sqrt", opSqrt), ("spki", opSpki), ("spki.parse", opSpkiParse),
   ("key.toder", opKeyToDer), ("key.fromder", opKeyFromDer), ("curve.toder", opCurveToDer), ("curve.fromder", opCurveFromDer),
   ("pem.to", opPemTo), ("pem.un", opPemUn), ("b64.enc", opB64Enc), ("b64.dec", opB64Dec)]

end Driver
