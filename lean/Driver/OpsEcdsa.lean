import Driver.OpsDer
import Bec2Verif.Model.Ecdsa
import Bec2Verif.Model.Sha256
open Bec2Verif Driver Ecdsa Ec
namespace Driver

def sha256H : Hash := { digest := Sha256.sha256, blockSize := 64, digestSize := 32 }

def resRS : Except Err (Int × Int) → String
  | .ok (r, s) => "ok " ++ showInt r ++ " " ++ showInt s
  | .error e => "err " ++ e.name

def opEcdsaSign : List String → String
  | [d, sec, h, k] => match parseDomain d, parseInt sec, parseInt h, parseInt k with
    | some d, some sec, some h, some k => resRS (sign d sec h k)
    | _, _, _, _ => "bad-op"
  | _ => "bad-op"

def opEcdsaVerifies : List String → String
  | [d, q, h, r, s] => match parseDomain d, parsePJ q, parseInt h, parseInt r, parseInt s with
    | some d, some Q, some h, some r, some s =>
      (match verifies d Q h r s with | .ok b => "ok " ++ toString b | .error e => "err " ++ e.name)
    | _, _, _, _, _ => "bad-op"
  | _ => "bad-op"

def opTrunc : List String → String
  | [dg, bl, o, a] => match parseHex dg, bl.toNat?, o.toNat? with
    | some dg, some bl, some o => resNat (truncateDigest dg bl o (a == "1"))
    | _, _, _ => "bad-op"
  | _ => "bad-op"

def opSigEnc : List String → String
  | [kind, r, s, o] => match r.toNat?, s.toNat?, o.toNat? with
    | some r, some s, some o =>
      if kind == "string" then resBytes (sigencodeString r s o)
      else if kind == "der" then "ok " ++ toHex (sigencodeDer r s)
      else if kind == "string_canonize" then resBytes (sigencodeString r (canonS s o) o)
      else if kind == "der_canonize" then "ok " ++ toHex (sigencodeDer r (canonS s o))
      else "bad-op"
    | _, _, _ => "bad-op"
  | _ => "bad-op"

def opSigDec : List String → String
  | [kind, sig, o] => match parseHex sig, o.toNat? with
    | some sig, some o =>
      let r := if kind == "string" then sigdecodeString sig o else sigdecodeDer sig
      (match r with | .ok (a, b) => "ok " ++ toString a ++ " " ++ toString b | .error e => "err " ++ e.name)
    | _, _ => "bad-op"
  | _ => "bad-op"

def opRfcK : List String → String
  | [o, x, data, retry, extra] => match o.toNat?, x.toNat?, parseHex data, retry.toNat?, parseHex extra with
    | some o, some x, some data, some retry, some extra => resNat (generateK sha256H o x data retry extra)
    | _, _, _, _, _ => "bad-op"
  | _ => "bad-op"

def opBits2octets : List String → String
  | [data, o] => match parseHex data, o.toNat? with
    | some data, some o => if data.isEmpty then "err ValueError" else "ok " ++ toHex (bits2octets data o)
    | _, _ => "bad-op"
  | _ => "bad-op"

def opVerifyDigest : List String → String
  | [d, q, bl, sig, dg, kind, allow] => match parseDomain d, parsePJ q, bl.toNat?, parseHex sig, parseHex dg with
    | some d, some Q, some bl, some sig, some dg =>
      (match verifyDigest d Q bl sig dg (kind == "der") (allow == "1") with
        | .ok b => "ok " ++ toString b | .error e => "err " ++ e.name)
    | _, _, _, _, _ => "bad-op"
  | _ => "bad-op"

def ecdsaOps : List (String × (List String → String)) :=
  [("ecdsa.sign", opEcdsaSign), ("ecdsa.verifies", opEcdsaVerifies), ("ecdsa.trunc", opTrunc), ("sig.enc", opSigEnc),
   ("sig.dec", opSigDec), ("rfc6979.k", opRfcK), ("rfc6979.b2o", opBits2octets), ("ecdsa.verifydigest", opVerifyDigest)]

end Driver
