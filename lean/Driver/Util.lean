import Bec2Verif.Model.Bytes
/-! line-protocol helpers: hex, decimal, results -/
namespace Driver
open Bec2Verif

def hexDigit (n : Nat) : Char :=
  if n < 10 then Char.ofNat (48 + n) else Char.ofNat (87 + n)

def toHex (bs : Bytes) : String :=
  if bs.isEmpty then "-" else
  String.ofList (bs.flatMap fun b => [hexDigit (b.toNat / 16), hexDigit (b.toNat % 16)])

def hexVal (c : Char) : Option Nat :=
  if '0' ≤ c ∧ c ≤ '9' then some (c.toNat - 48)
  else if 'a' ≤ c ∧ c ≤ 'f' then some (c.toNat - 87)
  else if 'A' ≤ c ∧ c ≤ 'F' then some (c.toNat - 55)
  else none

def parseHexAux : List Char → Bytes → Option Bytes
  | [], acc => some acc.reverse
  | [_], _ => none
  | a :: b :: rest, acc =>
    match hexVal a, hexVal b with
    | some x, some y => parseHexAux rest (UInt8.ofNat (x * 16 + y) :: acc)
    | _, _ => none

/-- "-" is the empty string -/
def parseHex (s : String) : Option Bytes :=
  if s == "-" then some [] else parseHexAux s.toList []

def resBytes : Except Err Bytes → String
  | .ok b => "ok " ++ toHex b
  | .error e => "err " ++ e.name

def resNat : Except Err Nat → String
  | .ok n => "ok " ++ toString n
  | .error e => "err " ++ e.name

end Driver
